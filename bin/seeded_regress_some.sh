#!/bin/bash
# seeded_regress_some.sh <ID>...: like seeded_regress.sh, restricted to the seeded changes of the given properties
V=${VERIF_DIR:-/verif}
cd "$V"
mkdir -p .cache
for id in "$@"; do
  for d in seeded/$id-*; do
    out=$(bin/seeded_check.sh "$V/$d/patch.diff" $id 2>&1); rc=$?
    echo "$(basename $d) exit=$rc $(echo "$out" | grep -E "signature" | head -2 | tr '\n' ' ' | cut -c1-160)"
  done
done
