#!/bin/bash
# re-runs every seeded change against its property's quick check; prints one line each
V=${VERIF_DIR:-/verif}
cd "$V"
mkdir -p .cache
for d in seeded/C*; do
  id=$(basename $d | cut -c1-3)
  out=$(bin/seeded_check.sh "$V/$d/patch.diff" $id 2>&1); rc=$?
  echo "$(basename $d) exit=$rc $(echo "$out" | grep -E "signature" | head -2 | tr '\n' ' ' | cut -c1-160)"
done
