#!/usr/bin/env python3
# seeded_meta.py <name> <property> <needs_to_manifest> <check_result>
import json,sys
name,prop,needs,res=sys.argv[1:5]
rnd=name[-1]
m={"property":prop,
 "source":"independent sub-agent (round %s: asked for a change different from the earlier rounds), given only the property text and a scratch worktree" % rnd,
 "needs_to_manifest":needs,
 "confirmed_by_me":["patch applies to /repo HEAD, project builds, pinned test suite passes with it (bin/seeded_check.sh)",
   "the agent's demonstration fails with the change and passes without it (re-run by me in the scratch worktree)"],
 "check_result":res}
json.dump(m,open(f'/verif/seeded/{name}/meta.json','w'),indent=1)
