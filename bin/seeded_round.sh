#!/bin/bash
# seeded_round.sh <ID> <round>: take a sub-agent's change from /tmp/w<round>-<ID>, verify its demonstration both ways,
# store it as seeded/<ID>-agent<round> and run the property's quick check against it.
export GOFLAGS=-mod=mod GOPROXY=off GOSUMDB=off GOTOOLCHAIN=local
id=$1; r=$2; w=/tmp/w$r-$id; name=$id-agent$r
cd $w || exit 2
git diff -- . > /tmp/cur-$id.diff
if ! diff -q /tmp/cur-$id.diff MUTANT.diff >/dev/null; then echo "NOTE: worktree diff != MUTANT.diff (using MUTANT.diff)"; git checkout -- . ; git apply MUTANT.diff || exit 2; fi
rm -f /tmp/cur-$id.diff
cmd=$(grep -m1 "DEMO-CMD:" MUTANT.md | sed 's/.*DEMO-CMD:[ `]*//; s/`.*$//')
echo "demo command: $cmd"
a=$(bash -c "$cmd" </dev/null 2>&1 | tail -3 | tr '\n' ' ')
git apply -R MUTANT.diff
b=$(bash -c "$cmd" </dev/null 2>&1 | tail -3 | tr '\n' ' ')
git apply MUTANT.diff
echo "DEMO WITH: ${a:0:200}"
echo "DEMO WITHOUT: ${b:0:200}"
/verif/bin/seeded_import.sh $id $w $name >/dev/null
/verif/bin/seeded_check.sh /verif/seeded/$name/patch.diff $id 2>&1 | grep -E "VIOLATION|signature|exit=|HARNESS|PATCH|COMPILE|PINNED" | head -8 | cut -c1-300
