#!/bin/bash
# build.sh <outdir>: rewrite /repo's working tree and build verifc (+ verifn) into <outdir>
set -e
export GOFLAGS=-mod=mod GOPROXY=off GOSUMDB=off GOTOOLCHAIN=local
V=${VERIF_DIR:-/verif}
R=${VERIF_REPO:-/repo}
out=$1
mkdir -p "$out"
cp "$R/go.sum" "$V/engine/go.sum"
# a repository copy other than /repo (background runs from a snapshot): same go.mod with the replace directive pointed at it
MODFLAG=""
if [ "$R" != "/repo" ]; then
  sed "s#=> /repo#=> $R#" "$V/engine/go.mod" > "$out/go.mod"
  cp "$R/go.sum" "$out/go.sum"
  MODFLAG="-modfile=$out/go.mod"
fi
if [ ! -x "$V/bin/rewrite" ] || [ "$V/rewrite/main.go" -nt "$V/bin/rewrite" ]; then
  (cd "$V/rewrite" && go build -o "$V/bin/rewrite" .)
fi
"$V/bin/rewrite" -repo "$R" -out "$out" -exclude internal/io/signal -stubdir "$V/engine/stubs" -adddir "$V/engine/overlay" -adddir2 "$V/engine/overlay_controlled" \
  -hooks "$(tr '\n' ',' < "$V/engine/hooks.txt")" \
  -vos internal/config,internal/io/fs,internal/mapr,internal/ssh/client,internal/server/handlers,internal/io/prompt >"$out/rewrite.log" 2>&1 || { cat "$out/rewrite.log" >&2; exit 2; }
(cd "$V/engine" && go build $MODFLAG -tags verif -overlay "$out/overlay.json" -o "$out/verifc" ./cmd/verifc) || exit 2
# native binary: only the verif-tagged added files, no rewriting
python3 - "$out" "$V" "$R" <<'PY'
import json,os,sys
out,V,R=sys.argv[1:4]
ov={}
for sub in ('overlay','overlay_native'):
    root=os.path.join(V,'engine',sub)
    for d,_,fs in os.walk(root):
        for f in fs:
            if f.endswith('.go'):
                p=os.path.join(d,f)
                ov[os.path.join(R,os.path.relpath(p,root))]=p
json.dump({"Replace":ov},open(os.path.join(out,'overlay-native.json'),'w'))
PY
(cd "$V/engine" && go build $MODFLAG -tags verif -overlay "$out/overlay-native.json" -o "$out/verifn" ./cmd/verifn) || exit 2
# the real dcat binary of the tree under test (C01 part 2 runs it against a server in a process of its own)
(cd "$R" && go build -o "$out/dcat" ./cmd/dcat) || exit 2
# race-detector build of the native binary (free-running -race pass)
(cd "$V/engine" && go build $MODFLAG -race -tags verif -overlay "$out/overlay-native.json" -o "$out/verifr" ./cmd/verifn) || exit 2
