#!/bin/bash
# Builds the framework from files on disk only (offline) and warms the caches.
set -e
export GOFLAGS=-mod=mod GOPROXY=off GOSUMDB=off GOTOOLCHAIN=local
V=${VERIF_DIR:-/verif}
cd "$V/rewrite" && go build -o "$V/bin/rewrite" .
cd "$V" && bin/check build-only
echo "setup ok"
