#!/bin/bash
# seeded_check.sh <patch.diff> <ID> [tier]: apply a seeded change to the repository (VERIF_REPO, default /repo), run the
# pinned tests and the check, undo it.
export GOFLAGS=-mod=mod GOPROXY=off GOSUMDB=off GOTOOLCHAIN=local
V=${VERIF_DIR:-/verif}
R=${VERIF_REPO:-/repo}
export VERIF_DIR=$V VERIF_REPO=$R
patch=$1; id=$2; tier=${3:-quick}
out=$(mktemp "$V/.cache/seeded_out.XXXXXX")
cd "$R" || exit 2
git checkout -- . ; git clean -fdq -- internal cmd; git apply "$patch" || { echo "PATCH DOES NOT APPLY"; exit 2; }
if ! go build ./... ; then echo "DOES NOT COMPILE"; git checkout -- .; exit 2; fi
t=$(go test -mod=mod -vet=off -count=1 ./... 2>&1 | grep -v "no test files" | grep -v "^ok" | head -5)
if [ -n "$t" ]; then echo "PINNED TESTS FAIL: $t"; git checkout -- .; exit 2; fi
echo "pinned tests pass with the change"
cd "$V" && bin/check "$id" "$tier" > "$out" 2>&1; rc=$?
grep -E "^VIOLATION|signature|HARNESS|^$id " "$out" | cut -c1-300 | head -8
rm -f "$out"
echo "check exit=$rc"
git -C "$R" checkout -- . ; git -C "$R" clean -fdq -- internal cmd
exit $rc
