#!/usr/bin/env python3
"""Regenerates /verif/MANIFEST.json from the table below (kept in one place so that the manifest stays valid)."""
import json, os
V = os.path.dirname(os.path.dirname(os.path.abspath(__file__)))
props = [json.loads(l) for l in open(os.path.join(V, 'properties.jsonl'))]

MC = "stateless model checking of the implementation: deviation-bounded exhaustive DFS over schedules of the real (mechanically rewritten) code under a controlled scheduler"
BE = "bounded exhaustive enumeration of inputs / operation sequences against a reference model, executed on the real code under the controlled scheduler (canonical schedule, virtual time, panic capture in every goroutine)"
TRUST = "Trusted: Go toolchain, the rewriter+vrt runtime (validated by the litmus suite in engine/explore), data-race freedom between synchronisation operations; bounded to the stated alphabets/bounds."

C = {}
C['C03'] = dict(cat='exploration', tech=BE,
    text="Every file as a word over {matching, non-matching line} up to length 8 (quick) / 11 (thorough) x the full product before/after/max in {0,1,2,3,9}^3 x invert, plus all files of <=4 lines with CR-terminated and empty lines under 9 line-end-sensitive patterns, plus 6 files of 150-400 lines with context sizes around the internal queue capacity, plus 20 further patterns (no-op spellings, literals anchored at one or both ends, flags, alternation) on 6 contexts, run through the real CatFile reader and compared with the reference grep-context selector of the statement: complete product of the context state machine with the reference up to that length.",
    ref="DESIGN.md 3.3, 4 (C03)")
C['C10'] = dict(cat='exploration', tech=BE,
    text="Exhaustive token-sequence enumeration of client inputs (commands, options, arguments, query texts, protocol envelopes, split writes, health-session commands, the content of the files a map query is pointed at (6 log formats x 5 data files with ragged rows, malformed tokens, binary bytes), server log levels from none to debug for the malformed envelopes, every ordered pair and triple of well-formed commands on one session arriving back to back and while the earlier ones are at work) fed to real server handlers; close hand-shakes completed by several goroutines at once under all schedules within 2 deviations; a panic in any goroutine, a deadlock, or a starved second session is a violation.",
    ref="DESIGN.md 3.3, 4 (C10)")
C['C11'] = dict(cat='exploration', tech=BE,
    text="Abstract queries enumerated as a product of clause menus, rendered in every surface variation (clause order, keyword case, separators, optional by/and), parsed by mapr.NewQuery and compared field by field with their denotation plus a one-line where/set evaluation; 39 malformed classes must be rejected; never a panic; every spelling of a decimal number; sibling queries (differing only inside a quoted string) parsed in one process in every order; part 2: free-running -race pass of 16 goroutines parsing as the first parses of a fresh process.",
    ref="DESIGN.md 3.3, 4 (C11)")
C['C12'] = dict(cat='exploration', tech=BE,
    text="All short regexes over a delimiter-heavy alphabet plus 22 special shapes (literals anchored at one or both ends, flags, alternation, word boundaries, repetition) and alternations of 1000..70000 bytes x invert, input from a file and from a stdin pipe x option values, each run end to end (GrepClient -> wire encoding -> ServerHandler -> reader) and compared with the pattern compiled and applied directly.",
    ref="DESIGN.md 3.3, 4 (C12)")
C['C13'] = dict(cat='model_checking', tech=MC,
    text="All schedules within a deviation bound (quick d<=2, thorough d<=3) of 2-3 real ServerHandler sessions sharing one real limiter channel, cat, tail and map+cat, reads that fail after taking their slot, clients that never read (incl. grep with before-context), files named '-', with cancellation at any point; invariant on every state: distinct open test files <= limit; end state: every non-cancelled read delivered, limiter empty. Part 2 (native): the server's own scheduled and continuous jobs, run by the real job-runner functions on a real server whose slots are held by SSH sessions, are not read beyond the limit and proceed when a slot frees. Part 3: free-running -race pass (data races in the read-command and server accounting code).",
    ref="DESIGN.md 3.1, 3.2, 4 (C13)")
C['C16'] = dict(cat='exploration', tech=BE,
    text="Exhaustive enumeration of server byte streams (all messages of <=4/<=5 tokens over a 20-token alphabet, record prefixes, split writes) through the three real client handlers in both colour modes; oracle: no panic, strip(coloured)==strip(uncoloured); hidden close messages racing with the handler's tear-down, AGGREGATE messages of two servers racing with the result reporter, records whose text is a prefix or near miss of a severity word, three mapreduce queries (incl. order by a plain field) with the result report produced after every stream, colours taken from the repository's example configuration file, under all schedules within 2 deviations; part 2: free-running -race pass of concurrent handlers in colour mode (any data race in the property's packages is a violation).",
    ref="DESIGN.md 3.3, 4 (C16)")
C['C18'] = dict(cat='model_checking', tech="explicit exhaustive exploration of every random-number answer sequence of the shuffle (environment choice points owned by the explorer) for every server list up to length 5/6, on the real discovery code",
    text="All server lists up to length 5 (quick) / 6 (thorough) over 4 entries, as comma list, server file (plain, without final newline, CRLF, reached through one symbolic link and through a chain of two) and discovery module with 5 filters; a dcat over more unreachable servers than it connects to at a time; entries with and without a port under a non-default configured port; 3000 entries; a server list read from a pipe; every outcome of every random draw of the shuffle is explored (complete tree); oracle: returned multiset == distinct matching entries.",
    ref="DESIGN.md 3.3, 4 (C18)")

C['C01'] = dict(cat='exploration', tech=BE,
    text="Every file content of <=3/<=4 tokens over 16 byte tokens (0x00, the wire delimiter 0xAC alone and inside UTF-8 characters, 0xFF, leading '.', '|', ';', CR, runs around MaxLineLength), gzip/zstd encodings incl. format features (multi-member gzip with boundaries inside a line, header fields, stored blocks, multi-frame zstd), histories of sessions on one server process (an earlier read that ends early, then a plain cat), and a long-line family around MaxLineLength and the 32 KiB transport buffer, each run through the real dcat main body (serverless, controlled scheduler, incl. reads slow enough to span dtail's timers, a grid of disk and transport speeds for consecutive over-long lines, and one over-long-line scenario under all schedules within one deviation) and compared byte for byte with the statement's reference (newline inserted after every MaxLineLength non-newline bytes); part 2 fetches all contents of <=3/<=4 tokens and over-long lines through a real in-process dtail server over SSH (native build), also with the REAL dcat binary of the tree against a server in a process of its own (configuration skew, a session longer than the 3 s statistics interval).",
    ref="DESIGN.md 3.3, 4 (C01), 9.6")
C['C02'] = dict(cat='model_checking', tech=MC,
    text="All schedules within a deviation bound (quick d<=2, thorough d<=2 on a larger scenario set; deviations = preemption, non-first ready select case, goroutine demotion) of complete dcat/dgrep sessions with 1-3 servers (real client main body, serverless connector, server handler, readers, client handler) over 1-3 files, with queueing behind the cat limit, more reads than twice the limit, globs that also match entries that are not read (directory, dangling link, denied file) and consumer stalls of 50 ms..61 s; oracle: per file exactly its selected lines once and in order, exit status 0, termination. Last part: free-running -race pass of concurrent real sessions (any data race in the reader, handler, pool and client packages is a violation).",
    ref="DESIGN.md 3.1, 3.2, 4 (C02)")
C['C04'] = dict(cat='model_checking', tech=MC,
    text="All schedules within a deviation bound (quick d<=2, thorough d<=3) of the real TailFile reader following a real file while a writer appends 1-3 lines in every composition into write() calls and a consumer receives; file opens/reads/writes are scheduling points; two followers delivering into one shared queue; a whole tail session across log rotation (truncate in place / rename and re-create), one follow across 12 rotations; plus (canonical schedule) histories of 30..450 delivered lines before 1 or 3 lines are dropped; oracle relative to the offset at which the follow began: exactly the complete appended lines, once, in order; gaps only with a full queue and then TransmittedPerc < 100; every delivered line carries its own running number.",
    ref="DESIGN.md 3.1, 3.2, 4 (C04)")
C['C05'] = dict(cat='exploration', tech=BE + "; differential oracle (partitioned run vs trivial partition of the same real code)",
    text="Every table of <=2/<=3 log lines over 6-8 shapes per format x every assignment of lines to (server, file, interval) cells x ~150 queries, through the real server aggregator, client mapr handler, global group set and CSV writer; result must equal the central evaluation; plus quoted literals whose white space matters (reference and complete dmap sessions), 16 large/tiny/negative/fractional values through the real serialisation and merge, plus the client's reporting path (interim report, final report, arriving partial results) under all schedules within 2 deviations.",
    ref="DESIGN.md 3.3, 4 (C05)")
C['C07'] = dict(cat='model_checking', tech=MC,
    text="All schedules within a deviation bound (quick d<=1, thorough d<=2) of a non-plain dcat session over 1-3 in-process servers x 1-2 files x 1-2 lines (plus 40000/70000-byte lines spanning several transport reads, globs in non-canonical spelling), the stdout logger's lock included as branching point; oracle: every output line is one whole correctly attributed REMOTE record, per source gap-free increasing line numbers; plus the real follow reader with a source faster than its consumer (every delivered line keeps its own running number); part 2: free-running -race pass of concurrent real sessions against one real server; part 3 (native fault enumeration): the real dcat binary reading through a TCP proxy that cuts the connection after k bytes, k on a grid over the whole stream.",
    ref="DESIGN.md 3.1, 3.2, 4 (C07)")

C['C06'] = dict(cat='model_checking', tech=MC,
    text="All schedules within a deviation bound (quick: d<=2 on two scenarios, d<=1 on three; thorough d<=2) of complete dmap runs: real MaprClient, one in-process server per server-list entry (map command, read commands behind the cat limiter, server Aggregate), per-server client handlers, GlobalGroupSet, final outfile, incl. a file that fails while being read (empty/corrupt .gz); oracle: final count and sum per key == totals over all files of all servers, exit status 0, termination. Plus the client side alone (two servers' handlers, periodic reporter, final report) within 2 deviations. Last part: free-running -race pass (any data race in the mapreduce packages is a violation).",
    ref="DESIGN.md 3.1, 3.2, 4 (C06)")
C['C08'] = dict(cat='exploration', tech=BE,
    text="All ordered rule lists of length <=3/<=4 over 13 rules (allow, deny, bare rules with ':', Perl syntax, typed, foreign type; default and per-user) x 25 requested paths over a real tree with every symlink kind, FIFO, directory, device; verdict of HasFilePermission compared in both directions with an independent reference, plus end-to-end cat sessions (paths and globs, also with the client-settable options in the command word) delivering exactly the allowed content; part 2: free-running -race pass (concurrent permission checks of one glob on one user object).",
    ref="DESIGN.md 3.3, 4 (C08)")
C['C09'] = dict(engine='native-ssh', cat='exploration', tech="bounded exhaustive enumeration of authorized_keys files, credentials and configurations against the real callbacks, plus real SSH handshakes against an in-process server (native build)",
    text="All authorized_keys files of <=3/<=4 lines over 11 line kinds x offered keys through the real verifyAuthorizedKeys; the full product user x password x source address (IPv4 and IPv6) x job configuration through the real password callback; every sequence of <=3 authentication requests over 2 connections x 3 users x 3 keys through the real PublicKeyCallback; real SSH handshakes (a key file of the server account itself, one per key type rsa/ed25519/ecdsa P-256/384/521 and per RSA signature algorithm) and real health sessions (8 commands) against an in-process server.",
    ref="DESIGN.md 3.3, 3.5, 4 (C09)",
    note="Native build (no rewriting): real goroutines and loopback sockets. Trusted: x/crypto/ssh (proof of key possession), the kernel. Waiting is by positive protocol events; no timing oracle.")
C['C14'] = dict(engine='native-ssh', cat='model_checking', tech="explicit-state breadth-first search over connection-event histories, every transition replayed against a fresh real SSH server (reference model = a counter); plus stateless deviation-bounded schedule exploration of the real accounting code under the controlled scheduler",
    text="Breadth-first search over histories of connection events (connect, 5 kinds of handshake incl. the login of a scheduled job, channels, a burst of 20 channel opens, shell requests, command, abrupt close, normal end) of three connections against a real in-process server with MaxConnections 2, de-duplicated by model state, depth 7 (quick) / 9 (thorough); after every event the reported connection count must equal the number actually open, never more than MaxConnections are served, and connects are refused/accepted as the free slots dictate. Part 2 (controlled build): all schedules within 2 deviations of the real handleConnection/accounting code for 3-4 sockets whose SSH clients run free; invariant 0 <= reported <= MaxConnections in every state, 0 at the end, and a socket is turned away at accept only if the count had reached MaxConnections at that moment, also when one accept(2) fails with EMFILE.",
    ref="DESIGN.md 3.5, 4 (C14)",
    note="Native build: x/crypto/ssh and loopback TCP run free; the harness controls only the order of client-side events and synchronises on positive protocol events; a mismatch must persist for 10 s. Trusted: x/crypto/ssh, the kernel.")
C['C15'] = dict(cat='fault_enumeration', tech="exhaustive crash-point enumeration: explicit-state search over file-system states, the real WriteResult killed before every mutating file-system operation of every run of every history",
    text="From {no files, a complete earlier outfile} every run variant (replace/append x result set x interim report) is executed on the real GlobalGroupSet.WriteResult over a recording file system, to completion and killed before every mutating operation, and with a write error (half the data, then ENOSPC) at every write; states de-duplicated and expanded to histories of 2/3 runs; the half-written / header-once / rows-preserved / .query invariants are evaluated on every state. Part 2 (native): three runs of a scheduled job on a real server against the same outfile; a finished run leaves no writer beside the outfile.",
    ref="DESIGN.md 3.4, 4 (C15)")
C['C17'] = dict(cat='model_checking', tech=MC + " combined with exhaustive enumeration of known-hosts files, contacted hosts and answers",
    text="All known-hosts files of <=2/<=3 lines over 10 line kinds x contacted host sets x 12 answers + trust-all, the callback obtained directly and through the client's real InitSSHAuthMethods (explicit key file, ~/.ssh/id_rsa), shutdown of the client inside the prompt's collection window, a re-connect with a changed key; part 2 (native): the real dcat binary contacting a server process BY NAME for every subset of known_hosts entry kinds (name/address x right/other key) x answers; the real host-key callbacks run as goroutines against the real prompt loop under the controlled scheduler (all schedules with <=1 deviation); oracle: proceed iff knownhosts accepts or the user approved or trust-all; refused hosts are reported untrusted; rewritten file keeps unrelated entries intact.",
    ref="DESIGN.md 3.1-3.3, 4 (C17)")

# additions of the seventh round of independent changes (DESIGN.md 9.10)
ADD = {
 'C01': " Also four kernel pseudo files (readable regular files whose stat size, 0, is not their length) through the real binary, serverless and through a server process.",
 'C02': " Also gzip/zstd files and files with an unterminated last line on slow disks and under a uniformly slow consumer (900-1000-line files: the end of the file is reached seconds after the start, behind full queues).",
 'C04': " Also 12 s follows without rotation of the file itself, of a symbolic link to it, of a chain of two links and of a relative link.",
 'C05': " Also complete dmap sessions over files holding six tables whose names are prefixes, suffixes and infixes of each other.",
 'C06': " Also files whose last line is unterminated, on a disk slow enough that the end of the file coincides with the reader's periodic checks.",
 'C07': " Also the client side alone: two servers' wire streams reach two real client handlers in transport reads, in EVERY arrival order, in a client process whose own MaxLineLength differs from the servers'.",
 'C08': " Also 24 JSON configuration files (Default absent/empty/two lists x the user's own entry absent/[]/null/three lists) loaded through the real config.Setup.",
 'C09': " The handshakes include 19 user names of 1..200 bytes (dots, dashes, '@domain', upper-case and non-ASCII letters), each with its listed and an unlisted key.",
 'C10': " Also 23 well-formed query shapes with every slot filled by each of 13 non-ASCII words (invalid UTF-8, letters whose case mapping changes the byte length, wide and combining characters, NUL).",
 'C11': " Also the NUMBER of interval and limit in 14 decimal spellings (zero padded, long) x 4 keyword spellings x 3 clause positions.",
 'C13': " The native part also replays two histories around the server's LAST connection going away while its read is still winding down (then a second and a third follow): never two files read at once with tail limit 1.",
 'C14': " The controlled runtime models sync.RWMutex with Go's writer preference (a recursive read lock with a writer arriving in between is reported as a deadlock); the native part bounds every question to the server's counter.",
 'C15': " The 1-row query also in two other spellings (a longer text of which the base text is a strict prefix, and one of the same length); after every completed run, in both modes, .query must hold exactly the text of the query that ran.",
 'C16': " Also AGGREGATE records whose group keys and values are multi-byte, wide or invalid UTF-8 (result table cells).",
 'C17': " The line kinds include a @revoked line for the very key a host presents; a third host presents a host certificate of an authority no line names.",
 'C18': " Also all lists of length <=3 over {a, the EMPTY entry, b:2222} as comma list and through the module with 8 filters incl. //, /./, /.*/ and /^$/.",
}
# additions of the eighth round (DESIGN.md 9.11)
ADD8 = {
 'C02': " Also (canonical schedule) all files of <=4 lines over {empty, short, exactly 1x/2x MaxLineLength, one byte more} through dcat and dgrep --invert.",
 'C04': " Also follows with MaxLineLength 2 and 3 over lines with 2-byte characters (the split falls inside a character).",
 'C05': " Two-field grouping over lines that lack either group field (the same value in different fields) in both tiers.",
 'C06': " Also default-format files with lines the parser rejects with an error; the controlled runtime's sync.Pool reports an object returned twice.",
 'C07': " Also dgrep sessions with --before 2 --after 1 over files whose every third line matches; the controlled runtime's sync.Pool reports an object returned twice.",
 'C14': " The connection-history search also has the event 'request a channel of another type (direct-tcpip)' on an open connection.",
 'C15': " Start states also include an outfile path that is a symbolic link to a complete earlier result, and a dangling link.",
}
for k, v in ADD8.items():
    ADD[k] = ADD.get(k, "") + v
# additions of the ninth round (DESIGN.md 9.12)
ADD9 = {
 'C01': " Also contents that start with a file signature (byte order marks, gzip/zstd magic inside a plain file, #!, PK, ELF) x 4 continuations x {plain, gz, zst}.",
 'C03': " Also 10 near-match-all pattern spellings (.+ ..* .? ^.*$ ^ $ (.*) .{0,}) over all files of <=4 lines with empty and CR lines.",
 'C08': " The configuration files are also loaded for 7 (configuration key, login name) pairs that differ in letter case or not.",
 'C10': " Also the product {-1,0,1,MinInt64,100000}^3 of before/after/max on cat and grep commands that read a file.",
 'C11': " Also output files named like the clause's optional word (append, quoted/bare/upper case, with and without append mode) in 3 keyword cases x 2 clause orders.",
 'C12': " Also before in {0..100000} (11 values around 100, 1024, 4096, 65536) x after in {0,1025,100000} x max in {0,1} end to end over a 3000-line probe with two matching lines.",
 'C16': " The record pairs also contain messages whose first field only starts with a record word (REMOTEX, REMOTE_ADDR, SERVERS, ...) for the same server as genuine records.",
 'C18': " Also a fleet list of 400000 systematically named servers (400 listed twice) as file and comma list in listed order.",
}
ADD9['C02'] = " Also gzip files whose last 8 bytes are missing (alone, in a glob of two, 900 lines): what is delivered must be a prefix of the file, each line once, in order (DESIGN.md 9.13)."
for k, v in ADD9.items():
    ADD[k] = ADD.get(k, "") + v
for k, v in ADD.items():
    C[k]['text'] += v
    if '9.10' not in C[k]['ref']:
        C[k]['ref'] += ", 9.10, 9.11"
    if k in ADD9 and '9.12' not in C[k]['ref']:
        C[k]['ref'] += ", 9.12"

PENDING = "check not built yet in this session (work in progress; see DESIGN.md section 4)"
checks = []
for pid in sorted(C):
    c = C[pid]
    checks.append({
        "property_id": pid,
        "quick_cmd": f"bin/check {pid} quick",
        "thorough_cmd": f"bin/check {pid} thorough",
        "evidence_file": f"/verif/evidence/{pid}.json",
        "replay_cmd_template": "bin/check replay {path}",
        "engine": c.get('engine', "vrt-explorer"),
        "level_claimed": {"category": c['cat'], "text": c['text'], "design_ref": c['ref']},
        "level_note": c.get('note', TRUST),
        "technique": c['tech'],
    })
na = [{"property_id": p['id'], "reason": PENDING} for p in props if p['id'] not in C]
m = {
    "version": 1,
    "setup_cmd": "bin/setup.sh",
    "hooks": {
        "guard": "verif",
        "enable": "bin/build.sh: go build -tags verif -overlay <generated overlay.json>; the verif-tagged accessor/reset files live in /verif/engine/overlay (both builds), overlay_controlled (rewritten build) and overlay_native (native and -race builds) and are injected through the overlay; function-entry hooks listed in engine/hooks.txt are inserted by the rewriter; /repo itself carries no hook code",
        "baseline_off_cmd": "cd /repo && go test -mod=mod -vet=off -count=1 ./...",
        "source_commits": [],
        "add_only": True,
    },
    "engines": [
        {"name": "native-ssh", "path": "/verif/engine/nharness", "serves_properties": ["C09", "C14"],
         "kind_free_text": "native build of dtail (only verif-tagged accessor files added): explicit-state BFS over connection histories and exhaustive credential enumeration against a real in-process SSH server on loopback"},
        {"name": "vrt-explorer", "path": "/verif/engine", "serves_properties": sorted(k for k in C if k not in ("C09", "C14")),
         "kind_free_text": "source-to-source rewriter (/verif/rewrite: chan/select/go/sync/time/context/os -> vrt controlled runtime, applied at check time through go build -overlay) + deviation-bounded stateless DFS explorer over schedules and environment choices + bounded-exhaustive input drivers; 16 worker processes"},
    ],
    "checks": checks,
    "not_applicable": na,
    "notes": "Every check rebuilds the checker from /repo's working tree (content-hash cache under /verif/.cache). Exit 0 = held, 1 = VIOLATION line, 2 = harness/build error. Known findings: /verif/KNOWN_FINDINGS.txt.",
}
json.dump(m, open(os.path.join(V, 'MANIFEST.json'), 'w'), indent=1)
print("checks:", len(checks), "not_applicable:", len(na))
