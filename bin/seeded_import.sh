#!/bin/bash
# seeded_import.sh <ID> <worktree> <name>: copy a sub-agent's change into /verif/seeded/<name>/
set -e
id=$1; w=$2; name=$3
d=/verif/seeded/$name
mkdir -p $d/demo
cp $w/MUTANT.diff $d/patch.diff
cp $w/MUTANT.md $d/MUTANT.md
# demonstration files = untracked files of the worktree other than MUTANT.*
(cd $w && git ls-files --others --exclude-standard | grep -v '^MUTANT' | while read f; do mkdir -p "$d/demo/$(dirname $f)"; cp "$f" "$d/demo/$f"; done)
ls -R $d | head -20
