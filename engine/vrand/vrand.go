// Package vrand replaces math/rand in rewritten code: every random answer is
// an environment choice owned by the explorer (0 is the default answer).
package vrand

import "github.com/mimecast/dtail/verif/vrt"

type Source interface{ Int63() int64 }
type src struct{}

func (src) Int63() int64 { return 0 }

func NewSource(seed int64) Source { return src{} }

type Rand struct{}

func New(s Source) *Rand { return &Rand{} }

func (r *Rand) Intn(n int) int {
	if n <= 0 {
		panic("invalid argument to Intn")
	}
	return vrt.Choose(n, "rand.Intn")
}
func (r *Rand) Int31n(n int32) int32 { return int32(r.Intn(int(n))) }
func (r *Rand) Int63n(n int64) int64 { return int64(r.Intn(int(n))) }
func (r *Rand) Int() int             { return 0 }
func (r *Rand) Int63() int64         { return 0 }
func (r *Rand) Float64() float64     { return 0 }
func (r *Rand) Perm(n int) []int {
	m := make([]int, n)
	for i := 0; i < n; i++ {
		j := r.Intn(i + 1)
		m[i] = m[j]
		m[j] = i
	}
	return m
}
func (r *Rand) Shuffle(n int, swap func(i, j int)) {
	for i := n - 1; i > 0; i-- {
		j := r.Intn(i + 1)
		swap(i, j)
	}
}
func (r *Rand) Seed(int64) {}

var global = &Rand{}

func Intn(n int) int                     { return global.Intn(n) }
func Int() int                           { return 0 }
func Int63() int64                       { return 0 }
func Float64() float64                   { return 0 }
func Perm(n int) []int                   { return global.Perm(n) }
func Shuffle(n int, swap func(i, j int)) { global.Shuffle(n, swap) }
func Seed(int64)                         {}
