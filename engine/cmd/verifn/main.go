// verifn is the native checker binary: un-rewritten dtail (only verif-tagged
// accessor files are added), real goroutines, real sockets.
package main

import (
	"fmt"
	"os"
	"strconv"
	"time"

	"github.com/mimecast/dtail/verif/core"
	"github.com/mimecast/dtail/verif/nharness"
)

func main() {
	if len(os.Args) < 2 {
		fmt.Fprintln(os.Stderr, "usage: verifn check <id> <tier> | worker ... | replay <file>")
		os.Exit(2)
	}
	code := 2
	switch os.Args[1] {
	case "check":
		code = core.CheckMain(os.Args[2], os.Args[3])
	case "worker":
		shard, _ := strconv.Atoi(os.Args[4])
		n, _ := strconv.Atoi(os.Args[5])
		dl, _ := strconv.ParseInt(os.Args[6], 10, 64)
		code = core.WorkerMain(os.Args[2], os.Args[3], shard, n, time.Unix(0, dl))
	case "replay":
		code = core.ReplayMain(os.Args[2])
	case "serve":
		// a dtail server in a process of its own (its configuration is then really separate from the client's)
		m, _ := strconv.Atoi(os.Args[2])
		code = nharness.ServeMain(m, os.Args[3])
	}
	core.CleanupScratch()
	os.Exit(code)
}
