// verifc is the controlled-runtime checker binary (built with the rewrite overlay).
package main

import (
	"fmt"
	"os"
	"strconv"
	"time"

	"github.com/mimecast/dtail/verif/core"
	_ "github.com/mimecast/dtail/verif/harness"
)

func main() {
	defer core.CleanupScratch()
	if len(os.Args) < 2 {
		fmt.Fprintln(os.Stderr, "usage: verifc check <id> <tier> | worker ... | replay <file>")
		os.Exit(2)
	}
	code := 2
	switch os.Args[1] {
	case "check":
		code = core.CheckMain(os.Args[2], os.Args[3])
	case "worker":
		shard, _ := strconv.Atoi(os.Args[4])
		n, _ := strconv.Atoi(os.Args[5])
		dl, _ := strconv.ParseInt(os.Args[6], 10, 64)
		code = core.WorkerMain(os.Args[2], os.Args[3], shard, n, time.Unix(0, dl))
	case "trace":
		idx, _ := strconv.Atoi(os.Args[4])
		var choices []int
		pol, dem := 0, false
		for _, a := range os.Args[5:] {
			if a == "demote" {
				dem = true
				continue
			}
			if len(a) > 1 && a[0] == 'p' {
				pol, _ = strconv.Atoi(a[1:])
				continue
			}
			v, _ := strconv.Atoi(a)
			choices = append(choices, v)
		}
		code = core.TraceMain(os.Args[2], os.Args[3], idx, choices, pol, dem)
	case "replay":
		code = core.ReplayMain(os.Args[2])
	}
	core.CleanupScratch()
	os.Exit(code)
}
