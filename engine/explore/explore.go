// Package explore is the deviation-bounded stateless explorer: depth-first
// search over choice sequences of executions of the real (rewritten) code on
// the vrt runtime.
package explore

import (
	"fmt"
	"time"

	"github.com/mimecast/dtail/verif/vrt"
)

// RunFunc performs one execution under the given vrt configuration (the
// harness passes cfg to vrt.Run) and returns a fingerprint of the observable
// outcome and, if the property is violated in this execution, a description.
type RunFunc func(cfg vrt.Config) (outcome string, violation string, res vrt.Result)

// Scenario is one closed harness instance.
type Scenario struct {
	Name   string
	Params string
	Run    RunFunc
	// Filter decides whether alternative alt at point p may be branched on
	// (nil = every alternative).  Part of the stated bound.
	Filter func(p *vrt.Point, alt int) bool
	Policy vrt.Policy
	// Demotion offers "this goroutine is slow" alternatives.
	Demotion bool
	// LongDemotion offers "this goroutine is delayed for up to 150 ms of virtual time" alternatives.
	LongDemotion bool
	MaxSteps     int
	Horizon      time.Duration
	// Agg, when set, makes the coverage of this scenario be added to one
	// aggregate entry of that name in the evidence (families of tiny scenarios).
	Agg string
}

// Violation is one property violation with its replayable schedule.
type Violation struct {
	Scenario string
	Params   string
	Policy   int
	Demotion bool
	Choices  []int
	Cost     int
	Msg      string
	Outcome  string
}

// Stats is the coverage of an exploration.
type Stats struct {
	Executions   int
	Steps        int64 // transitions executed
	Points       int64
	States       map[uint64]struct{}
	Outcomes     map[string]int
	MaxEnabled   int
	MaxPoints    int
	CompletedD   int // largest fully completed deviation bound (-1 none)
	Truncated    int // executions cut by step cap / horizon
	Incomplete   bool
	KnownHits    map[string]int
	PrunedStates int64
}

// NewStats makes empty stats.
func NewStats() *Stats {
	return &Stats{States: map[uint64]struct{}{}, Outcomes: map[string]int{}, CompletedD: -1, KnownHits: map[string]int{}}
}

type rec struct {
	prefix  []int
	choices []int
	nalts   []int
	allowed [][]int // allowed[i] = alternatives (>0) that may be branched on at point i (beyond the prefix)
	filter  func(p *vrt.Point, alt int) bool
	states  map[uint64]struct{}
	err     string
}

func (r *rec) Choose(p *vrt.Point) int {
	i := len(r.choices)
	c := 0
	if i < len(r.prefix) {
		c = r.prefix[i]
		if c >= len(p.Alts) {
			r.err = fmt.Sprintf("replay divergence at point %d: want alt %d of %d", i, c, len(p.Alts))
			c = 0
		}
	}
	r.choices = append(r.choices, c)
	r.nalts = append(r.nalts, len(p.Alts))
	if r.states != nil && vrt.W != nil && !p.Env {
		r.states[vrt.W.StateHash()] = struct{}{}
	}
	var al []int
	if i >= len(r.prefix) {
		for a := 1; a < len(p.Alts); a++ {
			if r.filter == nil || p.Env || r.filter(p, a) {
				al = append(al, a)
			}
		}
	}
	r.allowed = append(r.allowed, al)
	return c
}

// Explorer explores one scenario.
type Explorer struct {
	Sc       *Scenario
	Stats    *Stats
	Deadline time.Time
	// Shard selects the level-1 subtrees this process explores.
	ShardIndex, ShardCount int
	// OnViolation is called for every violating execution; it returns true to
	// stop the exploration.
	OnViolation func(v *Violation) bool
	stop        bool
	item        int
	all         bool
}

// ExploreAll explores the complete tree of choice sequences in one pass
// (no deviation bound).  CompletedD is set to the largest number of
// deviations seen.
func (e *Explorer) ExploreAll() bool {
	if e.ShardCount == 0 {
		e.ShardCount = 1
	}
	e.all = true
	e.item = 0
	e.dfs(nil, 0, 1<<30)
	if e.stop {
		e.Stats.Incomplete = true
		return false
	}
	return true
}

func (e *Explorer) cfg(r *rec, trace bool) vrt.Config {
	return vrt.Config{Chooser: r, Policy: e.Sc.Policy, OfferDemotion: e.Sc.Demotion, OfferLongDemotion: e.Sc.LongDemotion, Trace: trace,
		MaxSteps: e.Sc.MaxSteps, Horizon: e.Sc.Horizon}
}

func (e *Explorer) runOnce(prefix []int, count bool) (*rec, string, string, vrt.Result) {
	r := &rec{prefix: prefix, filter: e.Sc.Filter}
	if count {
		r.states = e.Stats.States
	}
	out, viol, res := e.Sc.Run(e.cfg(r, false))
	if r.err != "" {
		panic("explore: " + e.Sc.Name + ": " + r.err)
	}
	if !count {
		return r, out, viol, res
	}
	st := e.Stats
	st.Executions++
	st.Steps += int64(res.Steps)
	st.Points += int64(len(r.choices))
	if len(r.choices) > st.MaxPoints {
		st.MaxPoints = len(r.choices)
	}
	if res.MaxEnabled > st.MaxEnabled {
		st.MaxEnabled = res.MaxEnabled
	}
	if res.Trunc != "" {
		st.Truncated++
	}
	st.Outcomes[out]++
	return r, out, viol, res
}

func (e *Explorer) expired() bool {
	return !e.Deadline.IsZero() && time.Now().After(e.Deadline)
}

// Explore runs bounds 0..maxD.  It returns false if it was stopped early
// (deadline or OnViolation).
func (e *Explorer) Explore(maxD int) bool {
	if e.ShardCount == 0 {
		e.ShardCount = 1
	}
	for d := 0; d <= maxD; d++ {
		e.item = 0
		e.dfs(nil, 0, d)
		if e.stop {
			e.Stats.Incomplete = true
			return false
		}
		e.Stats.CompletedD = d
	}
	return true
}

func (e *Explorer) dfs(prefix []int, cost, bound int) {
	if e.stop {
		return
	}
	if e.expired() {
		e.stop = true
		return
	}
	top := len(prefix) == 0
	// only executions with exactly `bound` deviations are new in this pass;
	// the canonical execution is accounted by shard 0
	mine := (cost == bound || e.all) && (!top || e.ShardIndex == 0)
	if e.all && cost > e.Stats.CompletedD {
		e.Stats.CompletedD = cost
	}
	r, out, viol, _ := e.runOnce(prefix, mine)
	if viol != "" && mine {
		v := &Violation{Scenario: e.Sc.Name, Params: e.Sc.Params, Policy: int(e.Sc.Policy), Demotion: e.Sc.Demotion,
			Choices: trimZeros(r.choices), Cost: cost, Msg: viol, Outcome: out}
		if e.OnViolation == nil || e.OnViolation(v) {
			e.stop = true
			return
		}
	}
	if cost >= bound {
		return
	}
	for i := len(prefix); i < len(r.choices); i++ {
		for _, alt := range r.allowed[i] {
			if top {
				k := e.item
				e.item++
				if k%e.ShardCount != e.ShardIndex {
					continue
				}
			}
			np := make([]int, i+1)
			copy(np, r.choices[:i])
			np[i] = alt
			e.dfs(np, cost+1, bound)
			if e.stop {
				return
			}
		}
	}
}

func trimZeros(c []int) []int {
	n := len(c)
	for n > 0 && c[n-1] == 0 {
		n--
	}
	return append([]int{}, c[:n]...)
}

// Replay re-runs one schedule with tracing.
func Replay(sc *Scenario, choices []int) (outcome, violation string, res vrt.Result, divergence string) {
	r := &rec{prefix: choices}
	cfg := vrt.Config{Chooser: r, Policy: sc.Policy, OfferDemotion: sc.Demotion, OfferLongDemotion: sc.LongDemotion, Trace: true, MaxSteps: sc.MaxSteps, Horizon: sc.Horizon}
	outcome, violation, res = sc.Run(cfg)
	return outcome, violation, res, r.err
}
