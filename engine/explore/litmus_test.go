package explore

import (
	"fmt"
	"sort"
	"strings"
	"testing"
	"time"

	"github.com/mimecast/dtail/verif/vrt"
)

// outcomes explores a tiny program completely (bound large) and returns the
// set of outcomes.
func outcomes(t *testing.T, body func() string, opts ...func(*Scenario)) (map[string]int, *Stats) {
	sc := &Scenario{Name: "litmus", MaxSteps: 10000, Horizon: time.Hour}
	for _, o := range opts {
		o(sc)
	}
	sc.Run = func(cfg vrt.Config) (string, string, vrt.Result) {
		var out string
		res := vrt.Run(cfg, func() { out = body() })
		if res.Fail != nil {
			out = "FAIL:" + res.Fail.Kind
		}
		return out, "", res
	}
	e := &Explorer{Sc: sc, Stats: NewStats()}
	if !e.Explore(12) {
		t.Fatalf("not completed")
	}
	return e.Stats.Outcomes, e.Stats
}

func keys(m map[string]int) string {
	var k []string
	for s := range m {
		k = append(k, s)
	}
	sort.Strings(k)
	return strings.Join(k, " ")
}

func expect(t *testing.T, name string, got map[string]int, want string) {
	t.Helper()
	if g := keys(got); g != want {
		t.Errorf("%s: outcomes %q, want %q", name, g, want)
	}
}

func TestRendezvousTwoSenders(t *testing.T) {
	o, st := outcomes(t, func() string {
		c := vrt.Make[string]("c", 0)
		vrt.Go("a", func() { c.Send("", "a") })
		vrt.Go("b", func() { c.Send("", "b") })
		return c.Recv("") + c.Recv("")
	})
	expect(t, "rendezvous", o, "ab ba")
	if st.Executions < 2 {
		t.Errorf("executions %d", st.Executions)
	}
}

func TestBufferedFIFO(t *testing.T) {
	o, _ := outcomes(t, func() string {
		c := vrt.Make[int]("c", 2)
		vrt.Go("p", func() { c.Send("", 1); c.Send("", 2); c.Send("", 3); c.Close("") })
		s := ""
		for {
			v, ok := c.Recv2("")
			if !ok {
				break
			}
			s += fmt.Sprint(v)
		}
		return s
	})
	expect(t, "fifo", o, "123")
}

func TestSelectBothReady(t *testing.T) {
	o, _ := outcomes(t, func() string {
		a := vrt.Make[int]("a", 1)
		b := vrt.Make[int]("b", 1)
		a.Send("", 1)
		b.Send("", 2)
		ca, cb := a.RecvCase(), b.RecvCase()
		switch vrt.Select("", false, ca, cb) {
		case 0:
			return fmt.Sprint("a", ca.V)
		case 1:
			return fmt.Sprint("b", cb.V)
		}
		return "?"
	})
	expect(t, "select", o, "a1 b2")
}

func TestSelectDefaultAndNil(t *testing.T) {
	o, _ := outcomes(t, func() string {
		var n *vrt.Chan[int]
		a := vrt.Make[int]("a", 0)
		if vrt.Select("", true, n.RecvCase(), a.RecvCase()) != -1 {
			return "bad"
		}
		vrt.Go("s", func() { a.Send("", 7) })
		ca := a.RecvCase()
		if vrt.Select("", false, n.RecvCase(), ca) != 1 {
			return "bad2"
		}
		return fmt.Sprint(ca.V, ca.OK)
	})
	expect(t, "default+nil", o, "7 true")
}

func TestCloseWakesAll(t *testing.T) {
	o, _ := outcomes(t, func() string {
		c := vrt.Make[int]("c", 0)
		d := vrt.Make[string]("d", 2)
		for i := 0; i < 2; i++ {
			vrt.Go("r", func() {
				v, ok := c.Recv2("")
				d.Send("", fmt.Sprint(v, ok))
			})
		}
		c.Close("")
		return d.Recv("") + "," + d.Recv("")
	})
	expect(t, "close", o, "0 false,0 false")
}

func TestSendOnClosedPanics(t *testing.T) {
	o, _ := outcomes(t, func() string {
		c := vrt.Make[int]("c", 0)
		c.Close("")
		c.Send("", 1)
		return "no panic"
	})
	expect(t, "sendclosed", o, "FAIL:panic")
}

func TestLostUpdateAndMutex(t *testing.T) {
	prog := func(lock bool) func() string {
		return func() string {
			var mu vrt.Mutex
			var wg vrt.WaitGroup
			x := 0
			wg.Add(2)
			for i := 0; i < 2; i++ {
				vrt.Go("w", func() {
					if lock {
						mu.Lock()
					}
					vrt.Yield("")
					v := x
					vrt.Yield("")
					x = v + 1
					if lock {
						mu.Unlock()
					}
					wg.Done()
				})
			}
			wg.Wait()
			return fmt.Sprint(x)
		}
	}
	o, _ := outcomes(t, prog(false))
	expect(t, "nolock", o, "1 2")
	o, _ = outcomes(t, prog(true))
	expect(t, "lock", o, "2")
}

func TestDeadlock(t *testing.T) {
	o, _ := outcomes(t, func() string {
		c := vrt.Make[int]("c", 0)
		c.Recv("")
		return "x"
	})
	expect(t, "deadlock", o, "FAIL:deadlock")
}

func TestVirtualTime(t *testing.T) {
	o, _ := outcomes(t, func() string {
		t0 := vrt.Now()
		c := vrt.Make[string]("c", 0)
		vrt.Go("slow", func() { vrt.Sleep("", 5*time.Second); c.Send("", "slow") })
		ca, ct := c.RecvCase(), vrt.After("", time.Second).RecvCase()
		r := ""
		switch vrt.Select("", false, ca, ct) {
		case 0:
			r = ca.V
		case 1:
			r = "timeout"
		}
		return r + fmt.Sprint(vrt.Now().Sub(t0))
	})
	expect(t, "time", o, "timeout1s")
}

func TestContext(t *testing.T) {
	o, _ := outcomes(t, func() string {
		ctx, cancel := vrt.WithCancel("", vrt.Background())
		child, _ := vrt.WithTimeout("", ctx, time.Minute)
		d := vrt.Make[string]("d", 1)
		vrt.Go("w", func() { child.Done().Recv(""); d.Send("", fmt.Sprint(child.Err())) })
		cancel()
		return d.Recv("")
	})
	expect(t, "ctx", o, "context canceled")
	o, _ = outcomes(t, func() string {
		child, cancel := vrt.WithTimeout("", vrt.Background(), time.Minute)
		defer cancel()
		child.Done().Recv("")
		return fmt.Sprint(child.Err(), vrt.Now().Sub(time.Date(2026, 1, 1, 0, 0, 0, 0, time.UTC)))
	})
	expect(t, "ctxtimeout", o, "context deadline exceeded 1m0s")
}

func TestBlockedSendersFIFO(t *testing.T) {
	// two senders blocked on a full buffered channel are served in arrival order
	o, _ := outcomes(t, func() string {
		c := vrt.Make[string]("c", 1)
		c.Send("", "0")
		g := vrt.Make[int]("gate", 0)
		vrt.Go("a", func() { c.Send("", "a") })
		vrt.Go("b", func() { g.Recv(""); c.Send("", "b") })
		// make sure a is parked before b even attempts: b waits for the gate,
		// main opens the gate only after observing a parked (len stays 1 either way),
		// so we just check the set of outcomes is exactly the two arrival orders.
		g.Send("", 1)
		return c.Recv("") + c.Recv("") + c.Recv("")
	})
	expect(t, "sendq", o, "0ab 0ba")
}

func TestDeterminism(t *testing.T) {
	body := func() {
		c := vrt.Make[int]("c", 1)
		var wg vrt.WaitGroup
		wg.Add(3)
		for i := 0; i < 3; i++ {
			i := i
			vrt.Go("w", func() { c.Send("", i); c.Recv(""); wg.Done() })
		}
		wg.Wait()
	}
	var prev string
	for k := 0; k < 3; k++ {
		res := vrt.Run(vrt.Config{Trace: true, Chooser: vrt.ChooserFunc(func(p *vrt.Point) int { return len(p.Alts) - 1 })}, body)
		s := fmt.Sprint(res.Trace)
		if k > 0 && s != prev {
			t.Fatalf("nondeterministic trace")
		}
		prev = s
	}
}

// RWMutex: readers share; a goroutine that read-locks recursively deadlocks exactly in the schedules in which a
// writer arrives between its two read locks (Go's writer preference); without the writer it never does.
func TestRWMutexRecursiveReadLock(t *testing.T) {
	prog := func(writer bool) func() string {
		return func() string {
			var mu vrt.RWMutex
			var wg vrt.WaitGroup
			wg.Add(1)
			if writer {
				wg.Add(1)
				vrt.Go("writer", func() {
					mu.Lock()
					mu.Unlock()
					wg.Done()
				})
			}
			vrt.Go("reader", func() {
				mu.RLock()
				mu.RLock() // nested
				mu.RUnlock()
				mu.RUnlock()
				wg.Done()
			})
			wg.Wait()
			return "done"
		}
	}
	o, _ := outcomes(t, prog(false))
	expect(t, "recursive read lock alone", o, "done")
	o, _ = outcomes(t, prog(true))
	expect(t, "recursive read lock with a writer", o, "FAIL:deadlock done")
}

// two readers hold the lock at the same time; a writer excludes both
func TestRWMutexSharing(t *testing.T) {
	o, _ := outcomes(t, func() string {
		var mu vrt.RWMutex
		var wg vrt.WaitGroup
		inside, maxInside, writing, bad := 0, 0, false, false
		wg.Add(3)
		for i := 0; i < 2; i++ {
			vrt.Go("r", func() {
				mu.RLock()
				inside++
				if inside > maxInside {
					maxInside = inside
				}
				bad = bad || writing
				vrt.Yield("")
				inside--
				mu.RUnlock()
				wg.Done()
			})
		}
		vrt.Go("w", func() {
			mu.Lock()
			writing = true
			bad = bad || inside > 0
			vrt.Yield("")
			writing = false
			mu.Unlock()
			wg.Done()
		})
		wg.Wait()
		return fmt.Sprintf("max-readers=%d bad=%v", maxInside, bad)
	})
	expect(t, "sharing", o, "max-readers=1 bad=false max-readers=2 bad=false")
}

// sync.Pool: an object returned twice is reported
func TestPoolDoublePut(t *testing.T) {
	o, _ := outcomes(t, func() string {
		p := &vrt.Pool{New: func() interface{} { return new(struct{ x int }) }}
		a := p.Get()
		p.Put(a)
		b := p.Get() // the same object again (LIFO): taken out, so putting it back once is fine
		p.Put(b)
		p.Put(b)
		return "no report"
	})
	expect(t, "double put", o, "FAIL:pool")
}
