//go:build verif

package mapr

// Read-only accessors for the unexported parts of a parsed query (used by the
// verification harness to compare the parse with the query's denotation).

// VerifCond describes one where condition.
type VerifCond struct {
	L, LType string
	LF       float64
	Op       int
	R, RType string
	RF       float64
}

// VerifWhere returns the where conditions.
func (q *Query) VerifWhere() (out []VerifCond) {
	for _, w := range q.Where {
		out = append(out, VerifCond{L: w.lString, LType: w.lType.String(), LF: w.lFloat, Op: int(w.Operation),
			R: w.rString, RType: w.rType.String(), RF: w.rFloat})
	}
	return
}

// VerifSetCond describes one set condition.
type VerifSetCond struct {
	L, R, RType string
	RF          float64
	Funcs       []string
}

// VerifSet returns the set conditions.
func (q *Query) VerifSet() (out []VerifSetCond) {
	for _, s := range q.Set {
		c := VerifSetCond{L: s.lString, R: s.rString, RType: s.rType.String(), RF: s.rFloat}
		for _, f := range s.functionStack {
			c.Funcs = append(c.Funcs, f.Name)
		}
		out = append(out, c)
	}
	return
}

// VerifSel describes one select condition.
type VerifSel struct {
	Field, Storage string
	Op             int
}

// VerifSelect returns the select conditions.
func (q *Query) VerifSelect() (out []VerifSel) {
	for _, s := range q.Select {
		out = append(out, VerifSel{s.Field, s.FieldStorage, int(s.Operation)})
	}
	return
}
