//go:build verif

package server

import (
	user "github.com/mimecast/dtail/internal/user/server"

	gossh "golang.org/x/crypto/ssh"
)

// VerifVerifyAuthorizedKeys exposes verifyAuthorizedKeys to the verification harness.
func VerifVerifyAuthorizedKeys(u *user.User, authorizedKeysBytes []byte, offered gossh.PublicKey) (*gossh.Permissions, error) {
	return verifyAuthorizedKeys(u, authorizedKeysBytes, offered)
}
