//go:build verif

package discovery

// VerifServers is the list the VERIF discovery module returns.
var VerifServers []string

// ServerListFromVERIF is a discovery module used by the verification harness:
// the /regex/ filter of the -servers argument is only reachable with a module.
func (d *Discovery) ServerListFromVERIF() []string {
	return append([]string{}, VerifServers...)
}
