//go:build verif

package loggers

// VerifReset drops the logger singletons.
func VerifReset() { factoryMap = nil }
