//go:build verif

package dlog

// VerifReset forgets the logger singletons so that every controlled execution
// starts the loggers afresh (package-level state would otherwise leak channels
// of a finished execution into the next one).
func VerifReset() {
	started = false
	Client = nil
	Server = nil
	Common = nil
}
