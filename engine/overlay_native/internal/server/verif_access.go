//go:build verif

package server

import (
	"context"
	"net"

	"github.com/mimecast/dtail/internal/config"
)

// VerifServe runs the accept loop on a listener supplied by the verification
// harness (ephemeral loopback port), without the job runners.
func (s *Server) VerifServe(ctx context.Context, listener net.Listener) {
	s.listenerLoop(ctx, listener)
}

// VerifConnections returns the number of open connections the server reports
// (the currentConnections value of its STATS log lines).
func (s *Server) VerifConnections() int {
	s.stats.mutex.Lock()
	defer s.stats.mutex.Unlock()
	return s.stats.currentConnections
}

// VerifRunScheduledJob runs one scheduled job now, as the scheduler does when its timer fires.
func (s *Server) VerifRunScheduledJob(ctx context.Context, job config.Scheduled) {
	s.sched.runJob(ctx, job)
}

// VerifRunContinuousJob runs one continuous job now, as the continuous job runner does.
func (s *Server) VerifRunContinuousJob(ctx context.Context, job config.Continuous) {
	s.cont.runJob(ctx, job)
}
