//go:build verif

package server

import (
	"context"
	"net"
)

// VerifServe runs the accept loop on a listener supplied by the verification
// harness (ephemeral loopback port), without the job runners.
func (s *Server) VerifServe(ctx context.Context, listener net.Listener) {
	s.listenerLoop(ctx, listener)
}

// VerifConnections returns the number of open connections the server reports
// (the currentConnections value of its STATS log lines).
func (s *Server) VerifConnections() int {
	s.stats.mutex.Lock()
	defer s.stats.mutex.Unlock()
	return s.stats.currentConnections
}
