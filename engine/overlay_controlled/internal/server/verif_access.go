//go:build verif

package server

import (
	"net"

	context "github.com/mimecast/dtail/verif/vcontext"
)

// VerifHandleConnection runs the server's per-connection code (SSH handshake,
// connection accounting, channel loop) for a socket accepted by the harness.
func (s *Server) VerifHandleConnection(ctx context.Context, conn net.Conn) {
	s.handleConnection(ctx, conn)
}

// VerifListenerLoop runs the server's real accept loop on a listener supplied
// by the harness.
func (s *Server) VerifListenerLoop(ctx context.Context, l net.Listener) {
	s.listenerLoop(ctx, l)
}

// VerifLimitExceeded is the check the accept loop performs before it hands a
// socket to handleConnection.
func (s *Server) VerifLimitExceeded() bool {
	return s.stats.serverLimitExceeded() != nil
}

// VerifConnections returns the number of open connections the server reports.
func (s *Server) VerifConnections() int {
	return s.stats.currentConnections
}
