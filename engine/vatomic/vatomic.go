// Package vatomic replaces package sync/atomic in rewritten code: every
// operation is one visible atomic step of the controlled scheduler.
package vatomic

import "github.com/mimecast/dtail/verif/vrt"

func AddInt32(p *int32, d int32) (n int32) {
	vrt.AtomicOp(p, func() uint64 { *p += d; n = *p; return uint64(n) })
	return
}
func AddInt64(p *int64, d int64) (n int64) {
	vrt.AtomicOp(p, func() uint64 { *p += d; n = *p; return uint64(n) })
	return
}
func AddUint32(p *uint32, d uint32) (n uint32) {
	vrt.AtomicOp(p, func() uint64 { *p += d; n = *p; return uint64(n) })
	return
}
func AddUint64(p *uint64, d uint64) (n uint64) {
	vrt.AtomicOp(p, func() uint64 { *p += d; n = *p; return uint64(n) })
	return
}
func LoadInt32(p *int32) (n int32) {
	vrt.AtomicOp(p, func() uint64 { n = *p; return uint64(n) })
	return
}
func LoadInt64(p *int64) (n int64) {
	vrt.AtomicOp(p, func() uint64 { n = *p; return uint64(n) })
	return
}
func LoadUint32(p *uint32) (n uint32) {
	vrt.AtomicOp(p, func() uint64 { n = *p; return uint64(n) })
	return
}
func LoadUint64(p *uint64) (n uint64) {
	vrt.AtomicOp(p, func() uint64 { n = *p; return uint64(n) })
	return
}
func StoreInt32(p *int32, v int32)    { vrt.AtomicOp(p, func() uint64 { *p = v; return uint64(v) }) }
func StoreInt64(p *int64, v int64)    { vrt.AtomicOp(p, func() uint64 { *p = v; return uint64(v) }) }
func StoreUint32(p *uint32, v uint32) { vrt.AtomicOp(p, func() uint64 { *p = v; return uint64(v) }) }
func StoreUint64(p *uint64, v uint64) { vrt.AtomicOp(p, func() uint64 { *p = v; return uint64(v) }) }
func SwapInt32(p *int32, v int32) (o int32) {
	vrt.AtomicOp(p, func() uint64 { o = *p; *p = v; return uint64(o) })
	return
}
func SwapInt64(p *int64, v int64) (o int64) {
	vrt.AtomicOp(p, func() uint64 { o = *p; *p = v; return uint64(o) })
	return
}
func CompareAndSwapInt32(p *int32, o, n int32) (ok bool) {
	vrt.AtomicOp(p, func() uint64 {
		if *p == o {
			*p = n
			ok = true
			return 1
		}
		return 0
	})
	return
}
func CompareAndSwapInt64(p *int64, o, n int64) (ok bool) {
	vrt.AtomicOp(p, func() uint64 {
		if *p == o {
			*p = n
			ok = true
			return 1
		}
		return 0
	})
	return
}
func CompareAndSwapUint32(p *uint32, o, n uint32) (ok bool) {
	vrt.AtomicOp(p, func() uint64 {
		if *p == o {
			*p = n
			ok = true
			return 1
		}
		return 0
	})
	return
}

// Int32 mirrors atomic.Int32.
type Int32 struct{ v int32 }

func (x *Int32) Load() int32                    { return LoadInt32(&x.v) }
func (x *Int32) Store(v int32)                  { StoreInt32(&x.v, v) }
func (x *Int32) Add(d int32) int32              { return AddInt32(&x.v, d) }
func (x *Int32) Swap(v int32) int32             { return SwapInt32(&x.v, v) }
func (x *Int32) CompareAndSwap(o, n int32) bool { return CompareAndSwapInt32(&x.v, o, n) }

// Int64 mirrors atomic.Int64.
type Int64 struct{ v int64 }

func (x *Int64) Load() int64                    { return LoadInt64(&x.v) }
func (x *Int64) Store(v int64)                  { StoreInt64(&x.v, v) }
func (x *Int64) Add(d int64) int64              { return AddInt64(&x.v, d) }
func (x *Int64) Swap(v int64) int64             { return SwapInt64(&x.v, v) }
func (x *Int64) CompareAndSwap(o, n int64) bool { return CompareAndSwapInt64(&x.v, o, n) }

// Bool mirrors atomic.Bool.
type Bool struct{ v int32 }

func (x *Bool) Load() bool { return LoadInt32(&x.v) != 0 }
func (x *Bool) Store(b bool) {
	if b {
		StoreInt32(&x.v, 1)
	} else {
		StoreInt32(&x.v, 0)
	}
}

// Value mirrors atomic.Value.
type Value struct{ v interface{} }

func (x *Value) Load() (r interface{}) { vrt.AtomicOp(x, func() uint64 { r = x.v; return 0 }); return }
func (x *Value) Store(v interface{})   { vrt.AtomicOp(x, func() uint64 { x.v = v; return 0 }) }

func SwapUint32(p *uint32, v uint32) (o uint32) {
	vrt.AtomicOp(p, func() uint64 { o = *p; *p = v; return uint64(o) })
	return
}
func SwapUint64(p *uint64, v uint64) (o uint64) {
	vrt.AtomicOp(p, func() uint64 { o = *p; *p = v; return o })
	return
}
func CompareAndSwapUint64(p *uint64, o, n uint64) (ok bool) {
	vrt.AtomicOp(p, func() uint64 {
		if *p == o {
			*p = n
			ok = true
			return 1
		}
		return 0
	})
	return
}

// Uint32 mirrors atomic.Uint32.
type Uint32 struct{ v uint32 }

func (x *Uint32) Load() uint32                    { return LoadUint32(&x.v) }
func (x *Uint32) Store(v uint32)                  { StoreUint32(&x.v, v) }
func (x *Uint32) Add(d uint32) uint32             { return AddUint32(&x.v, d) }
func (x *Uint32) Swap(v uint32) uint32            { return SwapUint32(&x.v, v) }
func (x *Uint32) CompareAndSwap(o, n uint32) bool { return CompareAndSwapUint32(&x.v, o, n) }

// Uint64 mirrors atomic.Uint64.
type Uint64 struct{ v uint64 }

func (x *Uint64) Load() uint64                    { return LoadUint64(&x.v) }
func (x *Uint64) Store(v uint64)                  { StoreUint64(&x.v, v) }
func (x *Uint64) Add(d uint64) uint64             { return AddUint64(&x.v, d) }
func (x *Uint64) Swap(v uint64) uint64            { return SwapUint64(&x.v, v) }
func (x *Uint64) CompareAndSwap(o, n uint64) bool { return CompareAndSwapUint64(&x.v, o, n) }

func (x *Bool) Swap(b bool) bool {
	n := int32(0)
	if b {
		n = 1
	}
	return SwapInt32(&x.v, n) != 0
}
func (x *Bool) CompareAndSwap(o, n bool) bool {
	oi, ni := int32(0), int32(0)
	if o {
		oi = 1
	}
	if n {
		ni = 1
	}
	return CompareAndSwapInt32(&x.v, oi, ni)
}

// Pointer mirrors atomic.Pointer.
type Pointer[T any] struct{ p *T }

func (x *Pointer[T]) Load() (r *T) { vrt.AtomicOp(x, func() uint64 { r = x.p; return 0 }); return }
func (x *Pointer[T]) Store(v *T)   { vrt.AtomicOp(x, func() uint64 { x.p = v; return 0 }) }
func (x *Pointer[T]) Swap(v *T) (o *T) {
	vrt.AtomicOp(x, func() uint64 { o = x.p; x.p = v; return 0 })
	return
}
func (x *Pointer[T]) CompareAndSwap(o, n *T) (ok bool) {
	vrt.AtomicOp(x, func() uint64 {
		if x.p == o {
			x.p = n
			ok = true
			return 1
		}
		return 0
	})
	return
}
func (x *Value) Swap(v interface{}) (o interface{}) {
	vrt.AtomicOp(x, func() uint64 { o = x.v; x.v = v; return 0 })
	return
}
func (x *Value) CompareAndSwap(o, n interface{}) (ok bool) {
	vrt.AtomicOp(x, func() uint64 {
		if x.v == o {
			x.v = n
			ok = true
			return 1
		}
		return 0
	})
	return
}
