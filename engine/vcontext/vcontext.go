// Package vcontext replaces package context in rewritten code.
package vcontext

import (
	"time"

	"github.com/mimecast/dtail/verif/vrt"
)

type (
	Context    = vrt.Context
	CancelFunc = vrt.CancelFunc
)

var (
	Canceled         = vrt.Canceled
	DeadlineExceeded = vrt.DeadlineExceeded
)

func Background() Context                             { return vrt.Background() }
func TODO() Context                                   { return vrt.TODO() }
func WithCancel(parent Context) (Context, CancelFunc) { return vrt.WithCancel("", parent) }
func WithTimeout(parent Context, d time.Duration) (Context, CancelFunc) {
	return vrt.WithTimeout("", parent, d)
}
func WithDeadline(parent Context, d time.Time) (Context, CancelFunc) {
	return vrt.WithDeadline("", parent, d)
}
func WithValue(parent Context, k, v interface{}) Context { return vrt.WithValue(parent, k, v) }
