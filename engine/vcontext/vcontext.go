// Package vcontext replaces package context in rewritten code.
package vcontext

import (
	"context"
	"time"

	"github.com/mimecast/dtail/verif/vrt"
)

type (
	Context    = vrt.Context
	CancelFunc = vrt.CancelFunc
)

var (
	Canceled         = vrt.Canceled
	DeadlineExceeded = vrt.DeadlineExceeded
)

func Background() Context                             { return vrt.Background() }
func TODO() Context                                   { return vrt.TODO() }
func WithCancel(parent Context) (Context, CancelFunc) { return vrt.WithCancel("", parent) }
func WithTimeout(parent Context, d time.Duration) (Context, CancelFunc) {
	return vrt.WithTimeout("", parent, d)
}
func WithDeadline(parent Context, d time.Time) (Context, CancelFunc) {
	return vrt.WithDeadline("", parent, d)
}
func WithValue(parent Context, k, v interface{}) Context { return vrt.WithValue(parent, k, v) }

// CancelCauseFunc mirrors context.CancelCauseFunc.
type CancelCauseFunc func(cause error)

// WithCancelCause is context.WithCancelCause (the cause is returned by Cause).
func WithCancelCause(parent Context) (Context, CancelCauseFunc) {
	ctx, cancel := vrt.WithCancel("", parent)
	cc := &causeCtx{Context: ctx}
	return cc, func(cause error) {
		if cc.cause == nil {
			cc.cause = cause
		}
		cancel()
	}
}

type causeCtx struct {
	Context
	cause error
}

// Cause is context.Cause.
func Cause(c Context) error {
	if cc, ok := c.(*causeCtx); ok && cc.cause != nil {
		return cc.cause
	}
	return c.Err()
}

// WithoutCancel is context.WithoutCancel.
func WithoutCancel(parent Context) Context { return withoutCancel{parent} }

type withoutCancel struct{ p Context }

func (withoutCancel) Deadline() (time.Time, bool)       { return time.Time{}, false }
func (withoutCancel) Done() *vrt.Chan[struct{}]         { return nil }
func (withoutCancel) Err() error                        { return nil }
func (w withoutCancel) Value(k interface{}) interface{} { return w.p.Value(k) }

// AfterFunc is context.AfterFunc.
func AfterFunc(ctx Context, f func()) (stop func() bool) {
	stopped := vrt.Make[struct{}]("afterfunc.stop", 0)
	done := false
	vrt.Go("context.AfterFunc", func() {
		if vrt.Select("context.AfterFunc", false, ctx.Done().RecvCase(), stopped.RecvCase()) == 0 {
			done = true
			f()
		}
	})
	return func() bool {
		if done {
			return false
		}
		vrt.Select("context.AfterFunc.stop", true, stopped.SendCase(struct{}{}))
		return !done
	}
}

// Native bridges a virtual context into a real context.Context for code that is not rewritten (standard library,
// third-party modules): the real context is cancelled when the virtual one is (a managed goroutine watches it) and
// carries its values.  Deadlines are virtual time and are not transferred, only the resulting cancellation is.
func Native(c Context) context.Context {
	if c == nil {
		return context.Background()
	}
	nc, cancel := context.WithCancel(valueCtx{context.Background(), c})
	if d := c.Done(); d != nil {
		if vrt.W != nil {
			vrt.Go("context-bridge", func() {
				d.Recv("context-bridge")
				cancel()
			})
		}
	}
	_ = cancel
	return nc
}

type valueCtx struct {
	context.Context
	v Context
}

func (c valueCtx) Value(k interface{}) interface{} { return c.v.Value(k) }
