package nharness

import (
	"context"
	"crypto/ecdsa"
	"crypto/ed25519"
	"crypto/elliptic"
	"crypto/rand"
	"crypto/rsa"
	"fmt"
	"net"
	"os"
	"sync"
	"time"

	"github.com/mimecast/dtail/internal/config"
	"github.com/mimecast/dtail/internal/io/dlog"
	"github.com/mimecast/dtail/internal/server"
	"github.com/mimecast/dtail/internal/source"
	"github.com/mimecast/dtail/verif/core"
	"golang.org/x/crypto/ssh"
)

var setupOnce sync.Once

// Keys are the client key pairs of the harness.
type keyPair struct {
	Signer ssh.Signer
	Pub    ssh.PublicKey
	Line   string // authorized_keys line (no options, no comment)
}

var Keys []keyPair

// Setup prepares the process: configuration, loggers, working directory with
// a cache/ directory for authorized keys, host key.
func Setup() {
	setupOnce.Do(func() {
		dir := core.Scratch()
		os.MkdirAll(dir+"/cache", 0o755)
		if err := os.Chdir(dir); err != nil {
			panic(err)
		}
		os.Setenv("DTAIL_HOSTNAME_OVERRIDE", "host0")
		logger := "none"
		if l := os.Getenv("VERIF_NATIVE_LOGGER"); l != "" {
			logger = l
		}
		args := config.Args{ConfigFile: "none", Logger: logger, LogLevel: "error", LogDir: dir, SSHPort: config.DefaultSSHPort, ConnectionsPerCPU: 10}
		config.Setup(source.Server, &args, nil)
		config.Server.HostKeyFile = dir + "/cache/ssh_host_key"
		config.Server.HostKeyBits = 2048
		config.Common.CacheDir = "cache"
		var wg sync.WaitGroup
		wg.Add(1)
		dlog.Start(context.Background(), &wg, source.Server)
		// client keys
		rk, _ := rsa.GenerateKey(rand.Reader, 2048)
		_, ek, _ := ed25519.GenerateKey(rand.Reader)
		ck, _ := ecdsa.GenerateKey(elliptic.P256(), rand.Reader)
		_, ek2, _ := ed25519.GenerateKey(rand.Reader)
		for _, k := range []interface{}{rk, ek, ck, ek2} {
			s, err := ssh.NewSignerFromKey(k)
			if err != nil {
				panic(err)
			}
			l := string(ssh.MarshalAuthorizedKey(s.PublicKey()))
			Keys = append(Keys, keyPair{Signer: s, Pub: s.PublicKey(), Line: l[:len(l)-1]})
		}
	})
}

// TestServer is a real dtail server on an ephemeral loopback port.
type TestServer struct {
	S      *server.Server
	L      net.Listener
	Addr   string
	cancel context.CancelFunc
}

// StartServer starts a real server.
func StartServer(maxConn int) *TestServer {
	Setup()
	if config.Server.MaxConnections != maxConn { // no write when unchanged: goroutines of an earlier server may still read it
		config.Server.MaxConnections = maxConn
	}
	s := server.New()
	l, err := net.Listen("tcp", "127.0.0.1:0")
	if err != nil {
		panic(err)
	}
	ctx, cancel := context.WithCancel(context.Background())
	ts := &TestServer{S: s, L: l, Addr: l.Addr().String(), cancel: cancel}
	go s.VerifServe(ctx, l)
	return ts
}

// Stop stops accepting and cancels the server context.
func (t *TestServer) Stop() {
	t.cancel()
	t.L.Close()
}

// WriteAuthorizedKeys installs the authorized keys file of a user.
func WriteAuthorizedKeys(user, content string) {
	Setup()
	p := fmt.Sprintf("%s/cache/%s.authorized_keys", core.Scratch(), user)
	if err := os.WriteFile(p, []byte(content), 0o600); err != nil {
		panic(err)
	}
}

// WaitFor polls cond until it holds or the cap expires (positive events only:
// a passing condition returns at once; only a failure costs the whole cap).
func WaitFor(cap time.Duration, cond func() bool) bool {
	deadline := time.Now().Add(cap)
	for {
		if cond() {
			return true
		}
		if time.Now().After(deadline) {
			return false
		}
		time.Sleep(2 * time.Millisecond)
	}
}
