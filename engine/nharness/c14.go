package nharness

import (
	"bytes"
	"fmt"
	"io"
	"net"
	"sort"
	"strings"
	"time"

	"github.com/mimecast/dtail/internal/config"
	"github.com/mimecast/dtail/verif/core"
	"golang.org/x/crypto/ssh"
)

// C14: connection slots are bounded by MaxConnections and always given back.

const c14Max = 2

type c14Event struct {
	Kind string `json:"event"` // tcp hs-key hs-badkey hs-health hs-wrongpw hs-job session flood shell cmd close wait-end
	C    int    `json:"conn"`
	Ch   int    `json:"channel,omitempty"`
}

func (e c14Event) String() string {
	if e.Kind == "shell" || e.Kind == "cmd" {
		return fmt.Sprintf("%s(c%d.ch%d)", e.Kind, e.C, e.Ch)
	}
	return fmt.Sprintf("%s(c%d)", e.Kind, e.C)
}

// model of one connection
type c14Conn struct {
	Phase  string // none tcp authed closed
	Health bool
	Shells []int // shell requests per channel
	Cmd    bool  // a command was sent (session will end by itself)
	Flood  bool  // 20 further channel-open requests were sent without waiting for the answers
	Other  bool  // a channel of another type than "session" (direct-tcpip, as ssh -L / -W asks for) was requested
}

type c14Model struct {
	Conns []c14Conn
}

// open counts the authenticated connections that are certainly still open.
func (m c14Model) open() int {
	n := 0
	for _, c := range m.Conns {
		if c.Phase == "authed" && !c.Cmd {
			n++
		}
	}
	return n
}

// ending counts connections whose command has been sent: the server ends
// them by itself at a moment the harness does not control.
func (m c14Model) ending() int {
	n := 0
	for _, c := range m.Conns {
		if c.Phase == "authed" && c.Cmd {
			n++
		}
	}
	return n
}

func (m c14Model) pending() int {
	n := 0
	for _, c := range m.Conns {
		if c.Phase == "tcp" {
			n++
		}
	}
	return n
}

func (m c14Model) key() string {
	var parts []string
	for _, c := range m.Conns {
		parts = append(parts, fmt.Sprintf("%s/%v/%v/%v/%v/%v", c.Phase, c.Health, c.Shells, c.Cmd, c.Flood, c.Other))
	}
	sort.Strings(parts)
	return strings.Join(parts, ";")
}

func (m c14Model) clone() c14Model {
	n := c14Model{Conns: make([]c14Conn, len(m.Conns))}
	for i, c := range m.Conns {
		n.Conns[i] = c
		n.Conns[i].Shells = append([]int{}, c.Shells...)
	}
	return n
}

// enabled events (connections are symmetric: only the first unused one may connect)
func (m c14Model) events() (out []c14Event) {
	firstNone := true
	for i, c := range m.Conns {
		switch c.Phase {
		case "none":
			if firstNone {
				out = append(out, c14Event{Kind: "tcp", C: i})
				firstNone = false
			}
		case "tcp":
			for _, k := range []string{"hs-key", "hs-badkey", "hs-health", "hs-wrongpw", "hs-job", "close"} {
				out = append(out, c14Event{Kind: k, C: i})
			}
		case "authed":
			if c.Cmd {
				out = append(out, c14Event{Kind: "wait-end", C: i})
				continue
			}
			out = append(out, c14Event{Kind: "close", C: i})
			if c.Flood {
				continue
			}
			if len(c.Shells) <= 1 {
				out = append(out, c14Event{Kind: "flood", C: i})
			}
			if !c.Other && len(c.Shells) <= 1 {
				out = append(out, c14Event{Kind: "other-channel", C: i})
			}
			if len(c.Shells) < 2 {
				out = append(out, c14Event{Kind: "session", C: i})
			}
			for ch, n := range c.Shells {
				if n < 2 {
					out = append(out, c14Event{Kind: "shell", C: i, Ch: ch})
				}
			}
			if len(c.Shells) == 1 && c.Shells[0] == 1 {
				out = append(out, c14Event{Kind: "cmd", C: i, Ch: 0})
			}
		}
	}
	return
}

// real side of one connection
type c14Real struct {
	sock   net.Conn
	banner []byte
	client *ssh.Client
	chans  []ssh.Channel
	ended  chan struct{}
}

type prefixConn struct {
	net.Conn
	r io.Reader
}

func (p *prefixConn) Read(b []byte) (int, error) { return p.r.Read(b) }

type c14Run struct {
	ts    *TestServer
	real  []*c14Real
	model c14Model
	log   []string
	stuck bool
}

// count asks the server for its reported number of open connections.  The question takes the counter's lock: if the
// accounting is deadlocked it is never answered (-1000 after 60 s; the run is then marked as stuck).
func (r *c14Run) count() int {
	if r.stuck {
		return -1000
	}
	ans := make(chan int, 1)
	go func() { ans <- r.ts.S.VerifConnections() }()
	select {
	case n := <-ans:
		return n
	case <-time.After(60 * time.Second):
		r.stuck = true
		return -1000
	}
}

// settle waits (positive polling) until the reported count is one the model
// allows; it returns the last observed count and whether it is allowed.
func (r *c14Run) settle(cap time.Duration) (int, bool) {
	lo, hi := r.model.open(), r.model.open()+r.model.pending()+r.model.ending()
	last := 0
	ok := WaitFor(cap, func() bool {
		last = r.count()
		return last >= lo && last <= hi
	})
	return last, ok
}

// apply executes one event on the real server and on the model; it returns a
// violation text or "".
func (r *c14Run) apply(e c14Event) string {
	mc := &r.model.Conns[e.C]
	rc := r.real[e.C]
	switch e.Kind {
	case "tcp":
		openBefore, pendBefore := r.model.open(), r.model.pending()
		sock, err := net.DialTimeout("tcp", r.ts.Addr, 5*time.Second)
		if err != nil {
			return "harness: dial: " + err.Error()
		}
		sock.SetReadDeadline(time.Now().Add(10 * time.Second))
		buf := make([]byte, 256)
		n, rerr := sock.Read(buf)
		sock.SetReadDeadline(time.Time{})
		accepted := n > 0
		if !accepted && rerr != nil && !strings.Contains(rerr.Error(), "EOF") && !strings.Contains(rerr.Error(), "reset") {
			return "harness: banner read: " + rerr.Error()
		}
		if openBefore >= c14Max && accepted {
			return fmt.Sprintf("a new connection was accepted although %d connections are open (MaxConnections %d)", openBefore, c14Max)
		}
		if openBefore+pendBefore+r.model.ending() < c14Max && !accepted {
			return fmt.Sprintf("a new connection was refused although only %d connections are open and %d are connecting (MaxConnections %d); the server reports %d", openBefore, pendBefore, c14Max, r.count())
		}
		if accepted {
			rc.sock, rc.banner = sock, append([]byte{}, buf[:n]...)
			mc.Phase = "tcp"
		} else {
			sock.Close()
			mc.Phase = "closed"
		}
	case "hs-key", "hs-badkey", "hs-health", "hs-wrongpw", "hs-job":
		cfg := &ssh.ClientConfig{User: "alice", HostKeyCallback: ssh.InsecureIgnoreHostKey(), Timeout: 10 * time.Second}
		want := true
		switch e.Kind {
		case "hs-key":
			cfg.Auth = []ssh.AuthMethod{ssh.PublicKeys(Keys[0].Signer)}
		case "hs-badkey":
			cfg.Auth = []ssh.AuthMethod{ssh.PublicKeys(Keys[2].Signer)}
			want = false
		case "hs-health":
			cfg.User = config.HealthUser
			cfg.Auth = []ssh.AuthMethod{ssh.Password(config.HealthUser)}
		case "hs-wrongpw":
			cfg.User = config.HealthUser
			cfg.Auth = []ssh.AuthMethod{ssh.Password("wrong")}
			want = false
		case "hs-job":
			// the login of one of the server's own scheduled jobs (password = job name, allowed from 127.0.0.1)
			cfg.User = config.ScheduleUser
			cfg.Auth = []ssh.AuthMethod{ssh.Password("nightly")}
		}
		pc := &prefixConn{Conn: rc.sock, r: io.MultiReader(bytes.NewReader(rc.banner), rc.sock)}
		cc, chans, reqs, err := ssh.NewClientConn(pc, r.ts.Addr, cfg)
		if (err == nil) != want {
			return fmt.Sprintf("handshake %s: success=%v (%v)", e.Kind, err == nil, err)
		}
		if err != nil {
			rc.sock.Close()
			mc.Phase = "closed"
			break
		}
		rc.client = ssh.NewClient(cc, chans, reqs)
		rc.ended = make(chan struct{})
		go func(cl *ssh.Client, ch chan struct{}) { cl.Wait(); close(ch) }(rc.client, rc.ended)
		// a global request is answered by DiscardRequests, which the server starts after it counted the connection
		kerr := make(chan error, 1)
		go func(cl *ssh.Client) { _, _, err := cl.SendRequest("keepalive@verif", true, nil); kerr <- err }(rc.client)
		select {
		case err = <-kerr:
		case <-time.After(60 * time.Second):
			if r.count(); r.stuck {
				return "the server's connection accounting did not answer within 60 s: its counter lock is never released (deadlock); slots can neither be taken nor given back any more"
			}
			return "stuck: a global request on a freshly authenticated connection was not answered within 60 s"
		}
		if err != nil {
			// the server may legitimately close a connection that exceeds the limit right after the hand-shake
			mc.Phase = "closed"
			rc.client.Close()
			if r.model.open()+r.model.ending() < c14Max {
				return fmt.Sprintf("an authenticated connection was dropped (%v) although only %d connections are open (MaxConnections %d)", err, r.model.open(), c14Max)
			}
			break
		}
		mc.Phase = "authed"
		mc.Health = e.Kind == "hs-health"
		if r.model.open() > c14Max {
			return fmt.Sprintf("%d authenticated connections are being served at once, MaxConnections is %d", r.model.open(), c14Max)
		}
	case "flood":
		// a burst of channel-open requests whose answers nobody waits for (more than the SSH library buffers)
		for i := 0; i < 20; i++ {
			go func(cl *ssh.Client) {
				if ch, reqs, err := cl.OpenChannel("session", nil); err == nil {
					go ssh.DiscardRequests(reqs)
					go io.Copy(io.Discard, ch)
				}
			}(rc.client)
		}
		time.Sleep(500 * time.Millisecond)
		mc.Flood = true
	case "other-channel":
		// a channel type dtail does not offer: whatever the answer, the connection stays open and counted
		oc := make(chan error, 1)
		go func(cl *ssh.Client) {
			ch, reqs, err := cl.OpenChannel("direct-tcpip", ssh.Marshal(struct {
				Host  string
				Port  uint32
				OHost string
				OPort uint32
			}{"127.0.0.1", 80, "127.0.0.1", 12345}))
			if err == nil {
				go ssh.DiscardRequests(reqs)
				go io.Copy(io.Discard, ch)
			}
			oc <- err
		}(rc.client)
		select {
		case <-oc:
		case <-time.After(30 * time.Second):
			return "stuck: a channel-open request of another type was not answered within 30 s"
		}
		mc.Other = true
		// the connection must still be served: a global request is answered
		kerr := make(chan error, 1)
		go func(cl *ssh.Client) { _, _, err := cl.SendRequest("keepalive@verif", true, nil); kerr <- err }(rc.client)
		select {
		case err := <-kerr:
			if err != nil {
				// the server chose to end the connection after the request: then it must not count it any more either
				mc.Phase = "closed"
				rc.client.Close()
			}
		case <-time.After(30 * time.Second):
			return "stuck: a global request after a refused channel was not answered within 30 s"
		}
	case "session":
		type opened struct {
			ch   ssh.Channel
			reqs <-chan *ssh.Request
			err  error
		}
		oc := make(chan opened, 1)
		go func(cl *ssh.Client) {
			ch, reqs, err := cl.OpenChannel("session", nil)
			oc <- opened{ch, reqs, err}
		}(rc.client)
		var o opened
		select {
		case o = <-oc:
		case <-time.After(30 * time.Second):
			return "stuck: a further session channel on an open connection was not answered within 30 s"
		}
		ch, reqs, err := o.ch, o.reqs, o.err
		if err != nil {
			return "harness: open channel: " + err.Error()
		}
		go ssh.DiscardRequests(reqs)
		rc.chans = append(rc.chans, ch)
		mc.Shells = append(mc.Shells, 0)
	case "shell":
		ok, err := rc.chans[e.Ch].SendRequest("shell", true, nil)
		if err != nil || !ok {
			return fmt.Sprintf("harness: shell request: ok=%v err=%v", ok, err)
		}
		mc.Shells[e.Ch]++
	case "cmd":
		ch := rc.chans[e.Ch]
		go func() { // the client side of the close hand-shake
			var acc []byte
			buf := make([]byte, 4096)
			acked := false
			for {
				n, err := ch.Read(buf)
				acc = append(acc, buf[:n]...)
				if !acked && bytes.Contains(acc, []byte(".syn close connection")) {
					acked = true
					ch.Write(core.WireCommand(".ack close connection"))
				}
				if err != nil {
					return
				}
			}
		}()
		cmd := "cat /dev/null regex:noop "
		if mc.Health {
			cmd = "health"
		}
		if _, err := ch.Write(core.WireCommand(cmd)); err != nil {
			return "harness: write command: " + err.Error()
		}
		mc.Cmd = true
	case "close":
		if rc.client != nil {
			rc.sock.Close() // abrupt: no SSH disconnect message
		} else {
			rc.sock.Close()
		}
		mc.Phase = "closed"
	case "wait-end":
		select {
		case <-rc.ended:
		case <-time.After(20 * time.Second):
			return "the session did not end by itself within 20 s after its command completed"
		}
		mc.Phase = "closed"
	}
	if got, ok := r.settle(10 * time.Second); !ok {
		if r.stuck {
			return "the server's connection accounting did not answer within 60 s: its counter lock is never released (deadlock); slots can neither be taken nor given back any more"
		}
		lo, hi := r.model.open(), r.model.open()+r.model.pending()+r.model.ending()
		w := fmt.Sprint(lo)
		if hi != lo {
			w = fmt.Sprintf("%d..%d", lo, hi)
		}
		return fmt.Sprintf("the server reports %d open connections, actually open: %s (%d authenticated + %d still connecting)", got, w, lo, r.model.pending())
	}
	return ""
}

func (r *c14Run) cleanup() {
	for _, rc := range r.real {
		if rc.client != nil {
			rc.client.Close()
		}
		if rc.sock != nil {
			rc.sock.Close()
		}
	}
	if r.stuck {
		go r.ts.Stop() // may never return
		return
	}
	r.ts.Stop()
}

// c14Replay runs a path on a fresh server; returns the final model and the
// violation text of the first violating event.
func c14Replay(path []c14Event) (c14Model, string, int) {
	// one scheduled job whose login (user DTAIL-SCHEDULE, password = job name) is allowed from the loopback address
	var job config.Scheduled
	job.Name, job.Enable, job.AllowFrom, job.TimeRange = "nightly", false, []string{"127.0.0.1"}, [2]int{0, 24}
	config.Server.Schedule = []config.Scheduled{job}
	r := &c14Run{ts: StartServer(c14Max), model: c14Model{Conns: make([]c14Conn, 3)}}
	for i := range r.model.Conns {
		r.model.Conns[i].Phase = "none"
		r.real = append(r.real, &c14Real{})
	}
	defer r.cleanup()
	for i, e := range path {
		enabled := false
		for _, x := range r.model.events() {
			if x == e {
				enabled = true
			}
		}
		if !enabled {
			// the real server took the other allowed answer earlier on (e.g. refused a
			// connection in the zone where both answers are allowed): the rest of this
			// history cannot be realised, which is not a violation
			return r.model, "", -2
		}
		if v := r.apply(e); v != "" {
			return r.model, v, i
		}
	}
	return r.model, "", -1
}

func c14PathString(p []c14Event) string {
	var s []string
	for _, e := range p {
		s = append(s, e.String())
	}
	return strings.Join(s, " ")
}

func c14Sig(path []c14Event, v string) string {
	last := path[len(path)-1]
	switch {
	case strings.HasPrefix(v, "harness:"):
		return "harness"
	case strings.Contains(v, "authenticated connections are being served at once"):
		return "more-connections-served-than-MaxConnections"
	case strings.Contains(v, "was accepted although"):
		return "accepted-beyond-MaxConnections"
	case strings.Contains(v, "was refused although"):
		return "refused-although-slots-free"
	case strings.Contains(v, "the server reports"):
		return "reported-count-wrong-after-" + last.Kind
	case strings.Contains(v, "did not end"):
		return "session-does-not-end"
	case strings.Contains(v, "accounting did not answer"):
		return "connection-accounting-deadlocked"
	}
	return "other"
}

func c14Explore(c *core.Ctx, depth int) {
	Setup()
	WriteAuthorizedKeys("alice", Keys[0].Line+"\n")
	type node struct {
		path []c14Event
		m    c14Model
	}
	init := c14Model{Conns: []c14Conn{{Phase: "none"}, {Phase: "none"}, {Phase: "none"}}}
	frontier := []node{{nil, init}}
	seen := map[string]bool{init.key(): true}
	states, transitions := 1, 0
	item := 0
	for d := 1; d <= depth && len(frontier) > 0; d++ {
		var next []node
		for _, n := range frontier {
			for _, e := range n.m.events() {
				item++
				path := append(append([]c14Event{}, n.path...), e)
				mine := item%c.NShards == c.Shard
				// every shard needs the successor model; compute it from the model alone (cheap)
				succ, ok := c14ModelStep(n.m, e)
				if mine {
					if c.Expired() {
						return
					}
					_, v, at := c14Replay(path)
					transitions++
					c.Count(c14PathString(path))
					if v != "" && at == len(path)-1 {
						if strings.HasPrefix(v, "stuck:") {
							// not a statement about connection slots: note it and do not go on from here
							c.Res.Extra["unanswered_channel_opens"] = toF(c.Res.Extra["unanswered_channel_opens"]) + 1
							continue
						}
						if strings.HasPrefix(v, "harness:") {
							c.Res.HarnessErr = fmt.Sprintf("path %s: %s", c14PathString(path), v)
							return
						}
						sig := c14Sig(path, v)
						known := c.Violation(sig, fmt.Sprintf("history %s: %s", c14PathString(path), v), path)
						_ = known
					}
				}
				if !ok {
					continue
				}
				k := succ.key()
				if !seen[k] {
					seen[k] = true
					states++
					next = append(next, node{path, succ})
				}
			}
		}
		frontier = next
	}
	if c.Shard == 0 {
		c.Res.States += int64(states) // every shard enumerates the same model states
	}
	c.Res.Transitions += int64(transitions)
}

// c14ModelStep is the reference model's transition (what a correct server
// does); ok=false when the event's outcome is not determined by the model
// (a connection attempt in the zone where either answer is allowed).
func c14ModelStep(m c14Model, e c14Event) (c14Model, bool) {
	n := m.clone()
	c := &n.Conns[e.C]
	switch e.Kind {
	case "tcp":
		switch {
		case m.open() >= c14Max:
			c.Phase = "closed"
		case m.open()+m.pending()+m.ending() < c14Max:
			c.Phase = "tcp"
		default:
			// either answer is allowed; explore the "accepted" continuation only if the real server accepts: take accepted
			c.Phase = "tcp"
		}
	case "hs-key", "hs-job":
		if m.open() >= c14Max {
			c.Phase = "closed" // a correct server must not serve it
		} else {
			c.Phase = "authed"
		}
	case "hs-health":
		if m.open() >= c14Max {
			c.Phase = "closed"
		} else {
			c.Phase, c.Health = "authed", true
		}
	case "hs-badkey", "hs-wrongpw", "close", "wait-end":
		c.Phase = "closed"
	case "session":
		c.Shells = append(c.Shells, 0)
	case "flood":
		c.Flood = true
	case "other-channel":
		c.Other = true
	case "shell":
		c.Shells[e.Ch]++
	case "cmd":
		c.Cmd = true
	}
	return n, true
}

func init() {
	core.Register(&core.Check{
		ID:    "C14",
		Level: "model_checking",
		Rule: "explicit-state breadth-first search over connection histories against a REAL in-process dtail server (real x/crypto/ssh server and client over loopback, MaxConnections 2, three connections): events tcp-connect, hand-shake with a listed key / an unlisted key / the health password / the login of a scheduled job / " +
			"a wrong password, open a session channel (<=2), request a channel of another type (direct-tcpip), shell request (<=2 per channel), send a command, abrupt TCP close, wait for the normal end; the model state (per-connection phase, channels, shells; connections sorted) de-duplicates histories; EVERY transition is executed by replaying " +
			"its history on a fresh server, synchronised by positive protocol events (banner, hand-shake result, global-request reply, channel confirmation, request reply) and by polling the reported counter up to 10 s; oracle = a counter: reported open connections == authenticated, " +
			"not yet closed connections (+ sockets still hand-shaking, if the server counts them), never above MaxConnections served at once, connect refused when full and accepted when slots are free; states = model states, transitions = replayed histories",
		Assumptions: []string{
			"x/crypto/ssh and the kernel's loopback TCP run free; only the order of client-side events is controlled",
			"a count mismatch must persist for 10 s to be reported (no short wall-clock oracle); a passing check returns as soon as the count matches",
		},
		QuickBudget:    150 * time.Second,
		ThoroughBudget: 20 * time.Minute,
		Run: func(c *core.Ctx) {
			d := 7
			if c.Thorough() {
				d = 9
			}
			c14Explore(c, d)
			c.Sample(map[string]interface{}{"history": "tcp(c0) hs-key(c0) session(c0) shell(c0.ch0) shell(c0.ch0) close(c0)", "max_connections": c14Max})
		},
		Replay: func(c *core.Ctx, rec *core.ViolationRec) string {
			var path []c14Event
			if err := jsonUnmarshal(rec.Input, &path); err != nil {
				return "cannot decode history"
			}
			_, v, _ := c14Replay(path)
			return v
		},
	})
}

func toF(x interface{}) float64 {
	if f, ok := x.(float64); ok {
		return f
	}
	return 0
}
