package nharness

import (
	"bufio"
	"context"
	"fmt"
	"io"
	"net"
	"os"
	"os/exec"
	"path/filepath"
	"strconv"
	"strings"
	"sync"
	"time"

	sshclient "github.com/mimecast/dtail/internal/ssh/client"
	"github.com/mimecast/dtail/verif/core"
)

// C07 part 3 (native, fault enumeration): the connection to one of two servers dies at byte k of the server's
// stream, for a grid of k that covers positions inside records spanning several SSH packets.  The real dcat
// binary reads the same file through a cutting proxy and through a healthy connection; whatever it prints must
// still be whole, correctly labelled lines.

// cutProxy forwards TCP connections to target and closes both sides once cutAfter bytes have flowed from the
// server to the client (0 = never).
type cutProxy struct {
	l        net.Listener
	target   string
	cutAfter int64
	wg       sync.WaitGroup
}

func newCutProxy(target string, cutAfter int64) *cutProxy {
	l, err := net.Listen("tcp", "127.0.0.1:0")
	if err != nil {
		panic(err)
	}
	p := &cutProxy{l: l, target: target, cutAfter: cutAfter}
	go func() {
		for {
			c, err := l.Accept()
			if err != nil {
				return
			}
			p.wg.Add(1)
			go p.serve(c)
		}
	}()
	return p
}

func (p *cutProxy) serve(client net.Conn) {
	defer p.wg.Done()
	server, err := net.DialTimeout("tcp", p.target, 10*time.Second)
	if err != nil {
		client.Close()
		return
	}
	done := make(chan struct{}, 2)
	go func() { io.Copy(server, client); done <- struct{}{} }()
	go func() {
		if p.cutAfter > 0 {
			io.CopyN(client, server, p.cutAfter)
		} else {
			io.Copy(client, server)
		}
		done <- struct{}{}
	}()
	<-done
	client.Close()
	server.Close()
	<-done
}

func (p *cutProxy) addr() string { return p.l.Addr().String() }
func (p *cutProxy) close()       { p.l.Close(); p.wg.Wait() }

func c07nRun(c *core.Ctx) {
	Setup()
	self, err := os.Executable()
	if err != nil {
		c.Res.HarnessErr = "os.Executable: " + err.Error()
		return
	}
	dcat := filepath.Join(filepath.Dir(self), "dcat")
	home := core.Scratch() + "/c07n-home"
	os.MkdirAll(home+"/.ssh", 0o700)
	keyFile := home + "/id_rsa"
	sshclient.GeneratePrivatePublicKeyPairIfNotExists(keyFile, 2048)
	pub, err := os.ReadFile(keyFile + ".pub")
	if err != nil {
		c.Res.HarnessErr = "client key: " + err.Error()
		return
	}
	// the file: short lines and lines spanning several SSH packets
	var lines []string
	for i := 0; i < 6; i++ {
		n := []int{20, 40000, 30, 70000, 33000, 25}[i]
		lines = append(lines, fmt.Sprintf("line%d-", i+1)+strings.Repeat(string(rune('a'+i)), n))
	}
	file := core.Scratch() + "/c07n-big.log"
	os.WriteFile(file, []byte(strings.Join(lines, "\n")+"\n"), 0o644)
	cfg := home + "/dtail.json"
	os.WriteFile(cfg, []byte(`{"Server":{"MaxLineLength":1048576}}`), 0o644)
	// the server process
	srv := exec.Command(self, "serve", "1048576", strings.TrimSpace(string(pub)))
	srv.Env = append(os.Environ(), "VERIF_NATIVE_LOGGER=none")
	stdin, _ := srv.StdinPipe()
	stdout, _ := srv.StdoutPipe()
	if err := srv.Start(); err != nil {
		c.Res.HarnessErr = "starting the server process: " + err.Error()
		return
	}
	defer func() {
		stdin.Close()
		done := make(chan struct{})
		go func() { srv.Wait(); close(done) }()
		select {
		case <-done:
		case <-time.After(10 * time.Second):
			srv.Process.Kill()
			<-done
		}
	}()
	rd := bufio.NewReader(stdout)
	l, err := rd.ReadString('\n')
	if strings.HasPrefix(l, "HOSTKEY ") {
		l, err = rd.ReadString('\n')
	}
	if err != nil || !strings.HasPrefix(l, "ADDR ") {
		c.Res.HarnessErr = fmt.Sprintf("the server process did not report its address: %q %v", l, err)
		return
	}
	go io.Copy(io.Discard, rd)
	target := strings.TrimSpace(strings.TrimPrefix(l, "ADDR "))
	healthy := newCutProxy(target, 0)
	defer healthy.close()
	run := func(servers string) (string, error) {
		ctx, cancel := context.WithTimeout(context.Background(), 120*time.Second)
		defer cancel()
		cmd := exec.CommandContext(ctx, dcat, "--noColor", "--cfg", cfg, "--servers", servers, "--user", "alice", "--key", keyFile, "--trustAllHosts", "--files", file)
		cmd.Env = append(os.Environ(), "HOME="+home)
		out, err := cmd.Output()
		if ctx.Err() != nil {
			return string(out), fmt.Errorf("dcat did not end within 120 s")
		}
		_ = err // a non-zero status is expected when a connection died
		return string(out), nil
	}
	// first contact through the healthy proxy records the host key
	run(healthy.addr())
	check := func(out string, cut int64) string {
		for _, ol := range strings.SplitAfter(out, "\n") {
			if ol == "" {
				continue
			}
			if strings.HasPrefix(ol, "CLIENT|") || strings.HasPrefix(ol, "SERVER|") {
				if !strings.HasSuffix(ol, "\n") || strings.Count(ol, "REMOTE|") > 0 {
					return fmt.Sprintf("a client/server notice is glued to other output: %q", clip(ol))
				}
				continue
			}
			f := strings.SplitN(strings.TrimSuffix(ol, "\n"), "|", 6)
			if len(f) != 6 || f[0] != "REMOTE" || !strings.HasSuffix(ol, "\n") {
				return fmt.Sprintf("output line is not one whole labelled line: %q", clip(ol))
			}
			n, err := strconv.Atoi(f[3])
			if err != nil || n < 1 || n > len(lines) || f[5] != lines[n-1] {
				return fmt.Sprintf("output line labelled as line %s of %s does not carry that line's text (%d bytes): %q", f[3], f[4], len(f[5]), clip(ol))
			}
		}
		return ""
	}
	// the grid of cut positions: the whole stream is about 150 kB of cipher text plus the hand-shake
	step := int64(4999)
	if c.Thorough() {
		step = 997
	}
	for cut := int64(3000); cut < 200000; cut += step {
		if c.Expired() {
			return
		}
		p := newCutProxy(target, cut)
		out, err := run(p.addr() + "," + healthy.addr())
		p.close()
		c.Count(fmt.Sprintf("cut|%d", cut))
		v := ""
		if err != nil {
			v = err.Error()
		} else {
			v = check(out, cut)
		}
		if v != "" {
			c.Violation("output-not-whole-lines-when-a-connection-dies", fmt.Sprintf("dcat of a file with lines of 20..70000 bytes from two servers, the connection to the first one cut after %d bytes of the server's stream: %s", cut, v), map[string]int64{"cut_after_bytes": cut})
			return
		}
	}
	c.Sample(map[string]interface{}{"cut_after_bytes": 52990, "servers": "cutting proxy, healthy proxy (same dserver process)"})
}

func clip(s string) string {
	if len(s) > 160 {
		return s[:60] + fmt.Sprintf("...(%d bytes)...", len(s)) + s[len(s)-80:]
	}
	return s
}

func init() {
	core.Register(&core.Check{
		ID:       "C07N",
		ReportAs: "C07",
		Level:    "fault_enumeration",
		Rule: "native part, fault enumeration: the real dcat binary (labelled output) reads a file with lines of 20, 40000, 30, 70000, 33000, 25 bytes from two connections to a dtail server process; the first connection runs through a TCP proxy that cuts it after k bytes " +
			"of the server's stream, for every k on a grid (step 4999 quick / 997 thorough) over the whole stream, i.e. also inside records that span several SSH packets; oracle: every output line is a whole REMOTE record carrying exactly the text of the line its label names, or a whole client/server notice",
		Assumptions: []string{"the cut is placed in the cipher-text stream (TCP level), as a dying connection does"},
		Serial:      true,
		QuickBudget: 200 * time.Second,
		Run:         c07nRun,
	})
}
