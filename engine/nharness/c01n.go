package nharness

import (
	"bufio"
	"bytes"
	"compress/gzip"
	"context"
	"fmt"
	"io"
	"os"
	"os/exec"
	"path/filepath"
	"regexp"
	"strconv"
	"strings"
	"sync"
	"time"

	"github.com/mimecast/dtail/internal/clients"
	"github.com/mimecast/dtail/internal/config"
	sshclient "github.com/mimecast/dtail/internal/ssh/client"
	"github.com/mimecast/dtail/verif/core"
	"golang.org/x/crypto/ssh"
)

// C01 part 2: dcat --plain through a real server over SSH (native build).

var stdoutMu sync.Mutex

// lines the in-process *server* logs (LEVEL|MMDD-hhmmss|...); they go to the server's log in a real deployment.
// Not anchored at a line start: when the file's last line is unterminated the server's log line directly
// follows the client's last write (the content alphabet cannot produce this shape itself).
var serverLogLine = regexp.MustCompile(`(FATAL|ERROR|WARN|INFO)\|\d{4}-\d{6}\|[^\n]*\n`)

// captureStdout runs f with os.Stdout redirected into a buffer.
func captureStdout(f func()) string {
	stdoutMu.Lock()
	defer stdoutMu.Unlock()
	r, w, err := os.Pipe()
	if err != nil {
		panic(err)
	}
	old := os.Stdout
	os.Stdout = w
	var buf bytes.Buffer
	done := make(chan struct{})
	go func() { io.Copy(&buf, r); close(done) }()
	f()
	os.Stdout = old
	w.Close()
	<-done
	r.Close()
	return buf.String()
}

func c01nSplit(content []byte, m int) []byte {
	var out bytes.Buffer
	run := 0
	for _, b := range content {
		out.WriteByte(b)
		if b == '\n' {
			run = 0
			continue
		}
		run++
		if run == m {
			out.WriteByte('\n')
			run = 0
		}
	}
	return out.Bytes()
}

type c01nCase struct {
	Content string `json:"content"`
	Desc    string `json:"desc,omitempty"`
	Gzip    bool   `json:"gzip"`
	M       int    `json:"max_line_length"`
}

// runDcat runs the body of dcat's main against the real server at addr.
func runDcat(addr, file string) (string, int) {
	var status int
	out := captureStdout(func() {
		args := config.Args{ConnectionsPerCPU: 10, SSHPort: config.DefaultSSHPort, Plain: true, Quiet: true, NoColor: true,
			ServersStr: addr, UserName: "alice", What: file, LogLevel: "error",
			SSHAuthMethods: []ssh.AuthMethod{ssh.PublicKeys(Keys[0].Signer)}}
		cl, err := clients.NewCatClient(args)
		if err != nil {
			status = -1
			return
		}
		ctx, cancel := context.WithTimeout(context.Background(), 60*time.Second)
		defer cancel()
		stats := make(chan string)
		status = cl.Start(ctx, stats)
	})
	return out, status
}

func c01nRun(c *core.Ctx) {
	os.Setenv("VERIF_NATIVE_LOGGER", "stdout") // the client prints through the stdout logger
	Setup()
	config.Client.TermColorsEnable = false
	WriteAuthorizedKeys("alice", Keys[0].Line+"\n")
	ts := StartServer(10)
	defer ts.Stop()
	toks := []string{"\x00", "a", "\n", ".", "\xac", "\xe2\x82\xac", "\xff", "|", ";", "REMOTE|", "xxxxxxxx", "\r"}
	var cases []c01nCase
	var contents [][]byte
	add := func(cs c01nCase, b []byte) { cases = append(cases, cs); contents = append(contents, b) }
	n := 3
	if c.Thorough() {
		n = 4
	}
	var rec func(cur string, k int)
	rec = func(cur string, k int) {
		add(c01nCase{Content: cur, M: 8}, []byte(cur))
		if k == n {
			return
		}
		for _, t := range toks {
			rec(cur+t, k+1)
		}
	}
	rec("", 0)
	for _, l := range []int{32767, 32768, 32769, 40000, 70000} {
		for _, nl := range []bool{true, false} {
			b := "short1\n" + strings.Repeat("L", l) + "\n" + strings.Repeat("M", l+1000) + "\nshort2"
			if nl {
				b += "\n"
			}
			add(c01nCase{Desc: fmt.Sprintf("lines of %d and %d bytes among short lines, final newline %v", l, l+1000, nl), M: 100000}, []byte(b))
		}
	}
	add(c01nCase{Content: "a\nbb\nccc", Gzip: true, M: 8}, []byte("a\nbb\nccc"))
	dir := core.Scratch() + "/c01n"
	os.MkdirAll(dir, 0o755)
	for i, cs := range cases {
		if c.Expired() {
			return
		}
		content := contents[i]
		name := fmt.Sprintf("%s/f%d.txt", dir, i)
		data := content
		if cs.Gzip {
			name += ".gz"
			var b bytes.Buffer
			w := gzip.NewWriter(&b)
			w.Write(content)
			w.Close()
			data = b.Bytes()
		}
		os.WriteFile(name, data, 0o644)
		config.Server.MaxLineLength = cs.M
		got, status := runDcat(ts.Addr, name)
		got = serverLogLine.ReplaceAllString(got, "") // client and server share this process's stdout
		os.Remove(name)
		want := string(c01nSplit(content, cs.M))
		key := ""
		if len(content) > 0 {
			key = cs.Content + "|" + cs.Desc
		}
		c.Count(key)
		if got != want || status != 0 {
			sig := "output-differs-over-ssh"
			if bytes.IndexByte(content, 0xAC) >= 0 {
				sig = "content-contains-byte-0xAC"
			} else {
				for _, l := range bytes.SplitAfter([]byte(want), []byte("\n")) {
					if len(l) > 0 && l[0] == '.' {
						sig = "line-starts-with-dot"
					}
				}
			}
			show := func(s string) string {
				if len(s) > 100 {
					return fmt.Sprintf("%q...(%d bytes)", s[:100], len(s))
				}
				return fmt.Sprintf("%q", s)
			}
			c.Violation(sig, fmt.Sprintf("file content %s (%s), MaxLineLength %d, through a real server over SSH: dcat --plain printed %s (status %d), want %s",
				show(string(content)), cs.Desc, cs.M, show(got), status, show(want)), cs)
		}
	}
	c.Sample(c01nCase{Content: "a\n\xffa", M: 8})
	c01nSeparateServer(c)
}

// ServeMain runs a dtail server with its own MaxLineLength in this process until standard input ends; it prints
// "ADDR <host:port>" once it listens.  keyLine is the authorized-keys line of user alice.
func ServeMain(maxLineLength int, keyLine string) int {
	Setup()
	WriteAuthorizedKeys("alice", keyLine+"\n")
	config.Server.MaxLineLength = maxLineLength
	ts := StartServer(10)
	// the server's public host key (for harnesses that prepare known_hosts files)
	if b, err := os.ReadFile(config.Server.HostKeyFile); err == nil {
		if k, err := ssh.ParsePrivateKey(b); err == nil {
			fmt.Printf("HOSTKEY %s", ssh.MarshalAuthorizedKey(k.PublicKey()))
		}
	}
	fmt.Printf("ADDR %s\n", ts.Addr)
	io.Copy(io.Discard, os.Stdin)
	ts.Stop()
	return 0
}

// c01nSeparateServer: the server runs in a process of its own (verifn serve) and the client is the REAL dcat binary
// built from the tree under test, started the way a user starts it (dcat --plain --servers ... --files ...), with a
// configuration file whose MaxLineLength differs from the server's (each side has its own dtail.json in a real
// deployment); the reference splits lines at the SERVER's limit.  One session lasts longer than the client's 3 s
// statistics interval because nobody reads its output for the first 4.5 s.
func c01nSeparateServer(c *core.Ctx) {
	self, err := os.Executable()
	if err != nil {
		c.Res.HarnessErr = "os.Executable: " + err.Error()
		return
	}
	dcat := filepath.Join(filepath.Dir(self), "dcat")
	if _, err := os.Stat(dcat); err != nil {
		c.Res.HarnessErr = "the dcat binary was not built: " + err.Error()
		return
	}
	dir := core.Scratch() + "/c01n"
	home := core.Scratch() + "/c01n-home"
	os.MkdirAll(home+"/.ssh", 0o700)
	keyFile := home + "/id_rsa"
	sshclient.GeneratePrivatePublicKeyPairIfNotExists(keyFile, 2048)
	pub, err := os.ReadFile(keyFile + ".pub")
	if err != nil {
		c.Res.HarnessErr = "client key: " + err.Error()
		return
	}
	runBinary := func(addr, file string, mc int, readDelay time.Duration) (string, int) {
		cfg := fmt.Sprintf("%s/dtail-%d.json", home, mc)
		os.WriteFile(cfg, []byte(fmt.Sprintf(`{"Server":{"MaxLineLength":%d}}`, mc)), 0o644)
		ctx, cancel := context.WithTimeout(context.Background(), 120*time.Second)
		defer cancel()
		cmd := exec.CommandContext(ctx, dcat, "--plain", "--cfg", cfg, "--servers", addr, "--user", "alice", "--key", keyFile, "--trustAllHosts", "--files", file)
		if addr == "" {
			cmd = exec.CommandContext(ctx, dcat, "--plain", "--cfg", cfg, "--files", file) // serverless
		}
		cmd.Env = append(os.Environ(), "HOME="+home)
		cmd.Stdin = nil
		out, _ := cmd.StdoutPipe()
		if err := cmd.Start(); err != nil {
			return "harness: " + err.Error(), -1
		}
		time.Sleep(readDelay)
		b, _ := io.ReadAll(out)
		status := 0
		if err := cmd.Wait(); err != nil {
			status = 1
			if ee, ok := err.(*exec.ExitError); ok {
				status = ee.ExitCode()
			}
		}
		return string(b), status
	}
	first := true
	for _, pair := range [][2]int{{100000, 8}, {100000, 64}, {64, 100000}, {8, 1024 * 1024}} {
		ms, mc := pair[0], pair[1]
		if c.Expired() {
			return
		}
		cmd := exec.Command(self, "serve", strconv.Itoa(ms), strings.TrimSpace(string(pub)))
		cmd.Env = append(os.Environ(), "VERIF_NATIVE_LOGGER=none")
		stdin, _ := cmd.StdinPipe()
		stdout, _ := cmd.StdoutPipe()
		if err := cmd.Start(); err != nil {
			c.Res.HarnessErr = "starting the server process: " + err.Error()
			return
		}
		stop := func() {
			stdin.Close()
			done := make(chan struct{})
			go func() { cmd.Wait(); close(done) }()
			select {
			case <-done:
			case <-time.After(10 * time.Second):
				cmd.Process.Kill()
				<-done
			}
		}
		rd := bufio.NewReader(stdout)
		line, err := rd.ReadString('\n')
		if strings.HasPrefix(line, "HOSTKEY ") {
			line, err = rd.ReadString('\n')
		}
		if err != nil || !strings.HasPrefix(line, "ADDR ") {
			stop()
			c.Res.HarnessErr = fmt.Sprintf("the server process did not report its address: %q %v", line, err)
			return
		}
		go io.Copy(io.Discard, rd)
		addr := strings.TrimSpace(strings.TrimPrefix(line, "ADDR "))
		// first contact: the host key gets recorded in known_hosts (and the client says so); not part of the comparison
		warm := dir + "/warmup.txt"
		os.WriteFile(warm, []byte("x\n"), 0o644)
		runBinary(addr, warm, mc, 0)
		os.Remove(warm)
		var contents []string
		for _, l := range []int{mc - 1, mc, mc + 1, mc + 4095, mc + 4096, mc + 4097, 2*mc + 8200, ms - 1, ms, ms + 1, 2*ms + 1} {
			if l > 0 && l <= 300000 {
				contents = append(contents, "first\n"+strings.Repeat("L", l)+"\nlast\n", strings.Repeat("M", l))
			}
		}
		delays := make([]time.Duration, len(contents))
		if first {
			// the long session: 4 MB, nobody reads for 4.5 s
			var sb strings.Builder
			for i := 0; sb.Len() < 4<<20; i++ {
				fmt.Fprintf(&sb, "%08d INFO a line of a big file that takes a while to print\n", i)
			}
			contents = append(contents, sb.String())
			delays = append(delays, 4500*time.Millisecond)
			first = false
		}
		for i, content := range contents {
			name := fmt.Sprintf("%s/sep-%d-%d-%d.txt", dir, ms, mc, i)
			os.WriteFile(name, []byte(content), 0o644)
			got, status := runBinary(addr, name, mc, delays[i])
			os.Remove(name)
			if strings.HasPrefix(got, "harness: ") {
				stop()
				c.Res.HarnessErr = got
				return
			}
			want := string(c01nSplit([]byte(content), ms))
			c.Count(fmt.Sprintf("separate-server|%d|%d|%d", ms, mc, i))
			if got != want || status != 0 {
				i := 0
				for i < len(got) && i < len(want) && got[i] == want[i] {
					i++
				}
				end := i + 120
				if end > len(got) {
					end = len(got)
				}
				c.Violation("output-differs-with-the-real-dcat-binary-and-a-separate-server", fmt.Sprintf("server process with MaxLineLength %d, real dcat binary configured with %d, file of %d bytes (output first read after %v): dcat --plain printed %d bytes (status %d), want %d; first difference at offset %d: %q",
					ms, mc, len(content), delays[i%len(delays)], len(got), status, len(want), i, got[i:end]), c01nCase{Desc: fmt.Sprintf("separate server process ms=%d mc=%d len=%d", ms, mc, len(content)), M: ms})
			}
		}
		// readable regular files whose size as reported by stat(2) is NOT the number of bytes a read delivers: the
		// kernel's pseudo files report size 0 (network and FUSE file systems behave alike)
		// (in the pair whose client-side limit is large: serverless, a line split at the client's own limit comes with a
		// WARN line of the local logger, which is a diagnostic the default log level asks for, not content)
		if mc == 1024*1024 {
			for _, name := range []string{"/proc/version", "/proc/sys/kernel/ostype", "/proc/sys/kernel/osrelease", "/proc/filesystems"} {
				fi, err := os.Stat(name)
				content, rerr := os.ReadFile(name)
				if err != nil || rerr != nil || !fi.Mode().IsRegular() || len(content) == 0 {
					continue
				}
				for _, a := range []string{addr, ""} {
					lim, how := ms, "through the server process"
					if a == "" {
						lim, how = mc, "serverless"
					}
					got, status := runBinary(a, name, mc, 0)
					want := string(c01nSplit(content, lim))
					c.Count("pseudo-file|" + name + "|" + how)
					if got != want || status != 0 {
						c.Violation("pseudo-file-whose-stat-size-is-not-its-length", fmt.Sprintf("real dcat binary, %s: dcat --plain %s (a readable regular file of %d bytes that stat(2) reports as %d bytes long) printed %q (status %d), want %q", how, name, len(content), fi.Size(), got, status, want),
							c01nCase{Desc: "pseudo file " + name + " " + how, M: lim})
					}
				}
			}
		}
		stop()
	}
}

func init() {
	core.Register(&core.Check{
		ID:       "C01N",
		ReportAs: "C01",
		Level:    "exploration",
		Rule: "PART 2 (native, real SSH): file contents = all sequences of <=3 (quick) / <=4 (thorough) tokens over 12 byte tokens, files with two lines longer than the 32 KiB transport buffer, a gzip file; each is served by a real in-process dtail server and fetched by " +
			"the real dcat client code over x/crypto/ssh on loopback (plain mode); oracle as in part 1; plus the REAL dcat binary of the tree (dcat --plain --cfg ... --servers ... --files ...) against the server in a PROCESS OF ITS OWN whose MaxLineLength differs from the client's configuration file (4 pairs), lines around both limits and around the client's limit + 4096, a 4 MB file whose output nobody reads for the first 4.5 s (a session longer than the client's 3 s statistics interval), and four kernel pseudo files (readable regular files whose stat size, 0, is not their length) through the server and serverless",
		Assumptions: []string{"part 2 runs free (one schedule per input); it binds the serverless results of part 1 to the SSH wiring (server.go, serverconnection.go)"},
		Serial:      true,
		QuickBudget: 150 * time.Second,
		Run:         c01nRun,
	})
}
