package nharness

import (
	"context"
	"fmt"
	"os"
	"path/filepath"
	"strconv"
	"strings"
	"syscall"
	"time"

	"github.com/mimecast/dtail/internal/config"
	"github.com/mimecast/dtail/verif/core"
	"golang.org/x/crypto/ssh"
)

// C13 part 2 (native): the reads of the server's OWN background jobs (scheduled and continuous mapreduce
// queries) count against the same server-wide limits as the reads of client sessions.
//
// A real in-process server; sessions of the background users over real SSH hold the slots (a cat of a FIFO
// nobody writes to / a tail of a regular file); then the real job runner function is called as the scheduler
// does when its timer fires.  "Being read" is observed from outside: a FIFO has a reader iff a non-blocking
// open for writing succeeds; a regular file is being read iff the process has a descriptor on it.

// fifoHasReader reports whether somebody has the FIFO open for reading (or is blocked opening it).  When it
// does, the returned descriptor keeps the write side open (the reader then blocks in read until it is closed).
func fifoHasReader(path string) (int, bool) {
	fd, err := syscall.Open(path, syscall.O_WRONLY|syscall.O_NONBLOCK, 0)
	if err != nil {
		return -1, false
	}
	return fd, true
}

// openDescriptors counts the descriptors of this process that refer to path.
func openDescriptors(path string) int {
	n := 0
	ents, _ := os.ReadDir("/proc/self/fd")
	for _, e := range ents {
		if l, err := os.Readlink("/proc/self/fd/" + e.Name()); err == nil && l == path {
			n++
		}
	}
	return n
}

// heldSession is a background user's session that keeps a read running.
type heldSession struct {
	cl *ssh.Client
	s  *ssh.Session
}

func startHeld(addr, user, job, cmd string) (*heldSession, error) {
	cl, err := dial(addr, user, ssh.Password(job))
	if err != nil {
		return nil, err
	}
	s, err := cl.NewSession()
	if err != nil {
		cl.Close()
		return nil, err
	}
	in, _ := s.StdinPipe()
	outp, _ := s.StdoutPipe()
	if err := s.Shell(); err != nil {
		cl.Close()
		return nil, err
	}
	go func() { // drain, acknowledge the close hand-shake
		var acc []byte
		buf := make([]byte, 32*1024)
		acked := false
		for {
			n, err := outp.Read(buf)
			if !acked {
				acc = append(acc, buf[:n]...)
				if strings.Contains(string(acc), ".syn close connection") {
					acked = true
					in.Write(core.WireCommand(".ack close connection"))
				}
				if len(acc) > 1<<16 {
					acc = acc[len(acc)-64:]
				}
			}
			if err != nil {
				return
			}
		}
	}()
	in.Write(core.WireCommand(cmd))
	return &heldSession{cl, s}, nil
}

func (h *heldSession) close() {
	h.s.Close()
	h.cl.Close()
}

type c13nCase struct {
	Job   string `json:"job"`   // scheduled | continuous
	Limit int    `json:"limit"` // MaxConcurrentCats / MaxConcurrentTails
}

func c13nRun(c *core.Ctx, cs c13nCase) string {
	Setup()
	dir := fmt.Sprintf("%s/c13n-%s-%d", core.Scratch(), cs.Job, cs.Limit)
	os.RemoveAll(dir)
	os.MkdirAll(dir, 0o755)
	config.Server.MaxConcurrentCats = cs.Limit
	config.Server.MaxConcurrentTails = cs.Limit
	config.Server.SSHBindAddress = "127.0.0.1"
	// the jobs: job0..job<limit-1> are only names under which the harness logs in to hold the slots, "thejob" is run
	mk := func(name, file string) (config.Scheduled, config.Continuous) {
		var s config.Scheduled
		s.Name, s.Enable, s.Files, s.AllowFrom = name, true, file, []string{"127.0.0.1"}
		s.Query = "select count($line) from STATS group by $hostname"
		s.Outfile = dir + "/" + name + ".csv"
		s.TimeRange = [2]int{0, 24}
		var k config.Continuous
		k.Name, k.Enable, k.Files, k.AllowFrom, k.Query, k.Outfile = name, true, file, []string{"127.0.0.1"}, s.Query, s.Outfile
		return s, k
	}
	config.Server.Schedule, config.Server.Continuous = nil, nil
	jobFile := dir + "/job.fifo"
	if cs.Job == "continuous" {
		jobFile = dir + "/job.log"
		os.WriteFile(jobFile, []byte("x\n"), 0o644)
	} else if err := syscall.Mkfifo(jobFile, 0o644); err != nil {
		return "harness: mkfifo: " + err.Error()
	}
	theS, theK := mk("thejob", jobFile)
	config.Server.Schedule = append(config.Server.Schedule, theS)
	config.Server.Continuous = append(config.Server.Continuous, theK)
	for i := 0; i < cs.Limit; i++ {
		s, k := mk("holder"+strconv.Itoa(i), "")
		config.Server.Schedule = append(config.Server.Schedule, s)
		config.Server.Continuous = append(config.Server.Continuous, k)
	}
	defer func() { config.Server.Schedule, config.Server.Continuous = nil, nil }()
	ts := StartServer(20)
	defer ts.Stop()
	_, port, _ := strings.Cut(ts.Addr, ":")
	config.Common.SSHPort, _ = strconv.Atoi(port)

	// 1. sessions of background users take every slot
	var held []*heldSession
	var fds []int
	defer func() {
		for _, fd := range fds {
			syscall.Close(fd)
		}
		for _, h := range held {
			h.close()
		}
	}()
	var holderFiles []string
	for i := 0; i < cs.Limit; i++ {
		name := "holder" + strconv.Itoa(i)
		var f, cmd, user string
		if cs.Job == "scheduled" {
			f = fmt.Sprintf("%s/hold%d.fifo", dir, i)
			if err := syscall.Mkfifo(f, 0o644); err != nil {
				return "harness: mkfifo: " + err.Error()
			}
			cmd, user = "cat "+f+" regex:noop ", config.ScheduleUser
		} else {
			f = fmt.Sprintf("%s/hold%d.log", dir, i)
			os.WriteFile(f, []byte("x\n"), 0o644)
			cmd, user = "tail "+f+" regex:noop ", config.ContinuousUser
		}
		holderFiles = append(holderFiles, f)
		h, err := startHeld(ts.Addr, user, name, cmd)
		if err != nil {
			return "harness: holder session: " + err.Error()
		}
		held = append(held, h)
		ok := WaitFor(30*time.Second, func() bool {
			if cs.Job == "scheduled" {
				fd, r := fifoHasReader(f)
				if r {
					fds = append(fds, fd)
				}
				return r
			}
			return openDescriptors(f) > 0
		})
		if !ok {
			return fmt.Sprintf("harness: the read of holder session %d did not start within 30 s", i)
		}
	}
	// 2. the job runner fires
	ctx, cancel := context.WithCancel(context.Background())
	defer cancel()
	jobDone := make(chan struct{})
	go func() {
		defer close(jobDone)
		if cs.Job == "scheduled" {
			ts.S.VerifRunScheduledJob(ctx, theS)
		} else {
			ts.S.VerifRunContinuousJob(ctx, theK)
		}
	}()
	reading := func() bool {
		if cs.Job == "scheduled" {
			fd, r := fifoHasReader(jobFile)
			if r {
				fds = append(fds, fd)
			}
			return r
		}
		return openDescriptors(jobFile) > 0
	}
	// positive polling for the violation; the wait ends early once the job's own connection is established and
	// its commands have had two seconds
	connected := time.Time{}
	early := WaitFor(20*time.Second, func() bool {
		if reading() {
			return true
		}
		if connected.IsZero() && ts.S.VerifConnections() > cs.Limit {
			connected = time.Now()
		}
		return !connected.IsZero() && time.Since(connected) > 2*time.Second
	})
	if early && reading() {
		return fmt.Sprintf("the %s job's file is being read while all %d slots are held by other running reads: %d concurrent reads, limit %d", cs.Job, cs.Limit, cs.Limit+1, cs.Limit)
	}
	// 3. one holder finishes: the job's read must proceed
	if cs.Job == "scheduled" {
		syscall.Close(fds[0]) // end of file for the first holder's cat
		fds = fds[1:]
	} else {
		held[0].close()
		held = held[1:]
	}
	if !WaitFor(60*time.Second, reading) {
		return fmt.Sprintf("the %s job's read did not start within 60 s after a running read finished and freed a slot", cs.Job)
	}
	if cs.Job == "scheduled" {
		// let the job finish: end of file on its FIFO
		for _, fd := range fds {
			syscall.Close(fd)
		}
		fds = nil
		select {
		case <-jobDone:
		case <-time.After(60 * time.Second):
			return "the scheduled job did not finish within 60 s after its file ended"
		}
		if _, err := os.Stat(theS.Outfile); err != nil {
			if m, _ := filepath.Glob(theS.Outfile + "*"); len(m) == 0 {
				return "the scheduled job finished without writing its outfile"
			}
		}
	}
	return ""
}

func init() {
	core.Register(&core.Check{
		ID:       "C13N",
		ReportAs: "C13",
		Level:    "exploration",
		Rule: "native part: a real in-process server with limit 1 and 2; sessions of the background users over real SSH hold every slot (cat of a FIFO nobody writes to / tail of a regular file); then the real scheduled-job and continuous-job runner functions are " +
			"called as their timers do; observed from outside the code (FIFO has a reader / the process holds a descriptor on the file): the job's file is not read while all slots are held, and is read once one holder finishes; the scheduled job then completes and writes its outfile",
		Assumptions: []string{"the job runner functions are called directly instead of waiting for the 2 s / 1 min timers of the scheduler loop"},
		Serial:      true,
		QuickBudget: 300 * time.Second,
		Run: func(c *core.Ctx) {
			os.Setenv("VERIF_NATIVE_LOGGER", "none")
			for _, job := range []string{"scheduled", "continuous"} {
				for _, lim := range []int{1, 2} {
					cs := c13nCase{job, lim}
					c.Count(fmt.Sprintf("%s|%d", job, lim))
					v := c13nRun(c, cs)
					if strings.HasPrefix(v, "harness:") {
						c.Res.HarnessErr = v
						return
					}
					if v != "" {
						sig := "background-job-read-not-counted"
						if !strings.Contains(v, "is being read while") {
							sig = "background-job-read-never-proceeds"
						}
						c.Violation(sig, v, cs)
					}
				}
			}
			c.Sample(c13nCase{"scheduled", 1})
		},
	})
}
