package nharness

import (
	"context"
	"fmt"
	"os"
	"path/filepath"
	"strconv"
	"strings"
	"syscall"
	"time"

	"github.com/mimecast/dtail/internal/config"
	"github.com/mimecast/dtail/verif/core"
	"golang.org/x/crypto/ssh"
)

// C13 part 2 (native): the reads of the server's OWN background jobs (scheduled and continuous mapreduce
// queries) count against the same server-wide limits as the reads of client sessions.
//
// A real in-process server; sessions of the background users over real SSH hold the slots (a cat of a FIFO
// nobody writes to / a tail of a regular file); then the real job runner function is called as the scheduler
// does when its timer fires.  "Being read" is observed from outside: a FIFO has a reader iff a non-blocking
// open for writing succeeds; a regular file is being read iff the process has a descriptor on it.

// fifoHasReader reports whether somebody has the FIFO open for reading (or is blocked opening it).  When it
// does, the returned descriptor keeps the write side open (the reader then blocks in read until it is closed).
func fifoHasReader(path string) (int, bool) {
	fd, err := syscall.Open(path, syscall.O_WRONLY|syscall.O_NONBLOCK, 0)
	if err != nil {
		return -1, false
	}
	return fd, true
}

// openDescriptors counts the descriptors of this process that refer to path.
func openDescriptors(path string) int {
	n := 0
	ents, _ := os.ReadDir("/proc/self/fd")
	for _, e := range ents {
		if l, err := os.Readlink("/proc/self/fd/" + e.Name()); err == nil && l == path {
			n++
		}
	}
	return n
}

// heldSession is a background user's session that keeps a read running.
type heldSession struct {
	cl *ssh.Client
	s  *ssh.Session
}

func startHeld(addr, user, job, cmd string) (*heldSession, error) {
	return startHeldAuth(addr, user, ssh.Password(job), cmd)
}

func startHeldAuth(addr, user string, auth ssh.AuthMethod, cmd string) (*heldSession, error) {
	cl, err := dial(addr, user, auth)
	if err != nil {
		return nil, err
	}
	s, err := cl.NewSession()
	if err != nil {
		cl.Close()
		return nil, err
	}
	in, _ := s.StdinPipe()
	outp, _ := s.StdoutPipe()
	if err := s.Shell(); err != nil {
		cl.Close()
		return nil, err
	}
	go func() { // drain, acknowledge the close hand-shake
		var acc []byte
		buf := make([]byte, 32*1024)
		acked := false
		for {
			n, err := outp.Read(buf)
			if !acked {
				acc = append(acc, buf[:n]...)
				if strings.Contains(string(acc), ".syn close connection") {
					acked = true
					in.Write(core.WireCommand(".ack close connection"))
				}
				if len(acc) > 1<<16 {
					acc = acc[len(acc)-64:]
				}
			}
			if err != nil {
				return
			}
		}
	}()
	in.Write(core.WireCommand(cmd))
	return &heldSession{cl, s}, nil
}

func (h *heldSession) close() {
	h.s.Close()
	h.cl.Close()
}

type c13nCase struct {
	Job   string `json:"job"`   // scheduled | continuous
	Limit int    `json:"limit"` // MaxConcurrentCats / MaxConcurrentTails
}

func c13nRun(c *core.Ctx, cs c13nCase) string {
	Setup()
	dir := fmt.Sprintf("%s/c13n-%s-%d", core.Scratch(), cs.Job, cs.Limit)
	os.RemoveAll(dir)
	os.MkdirAll(dir, 0o755)
	config.Server.MaxConcurrentCats = cs.Limit
	config.Server.MaxConcurrentTails = cs.Limit
	config.Server.SSHBindAddress = "127.0.0.1"
	// the jobs: job0..job<limit-1> are only names under which the harness logs in to hold the slots, "thejob" is run
	mk := func(name, file string) (config.Scheduled, config.Continuous) {
		var s config.Scheduled
		s.Name, s.Enable, s.Files, s.AllowFrom = name, true, file, []string{"127.0.0.1"}
		s.Query = "select count($line) from STATS group by $hostname"
		s.Outfile = dir + "/" + name + ".csv"
		s.TimeRange = [2]int{0, 24}
		var k config.Continuous
		k.Name, k.Enable, k.Files, k.AllowFrom, k.Query, k.Outfile = name, true, file, []string{"127.0.0.1"}, s.Query, s.Outfile
		return s, k
	}
	config.Server.Schedule, config.Server.Continuous = nil, nil
	jobFile := dir + "/job.fifo"
	if cs.Job == "continuous" {
		jobFile = dir + "/job.log"
		os.WriteFile(jobFile, []byte("x\n"), 0o644)
	} else if err := syscall.Mkfifo(jobFile, 0o644); err != nil {
		return "harness: mkfifo: " + err.Error()
	}
	theS, theK := mk("thejob", jobFile)
	config.Server.Schedule = append(config.Server.Schedule, theS)
	config.Server.Continuous = append(config.Server.Continuous, theK)
	for i := 0; i < cs.Limit; i++ {
		s, k := mk("holder"+strconv.Itoa(i), "")
		config.Server.Schedule = append(config.Server.Schedule, s)
		config.Server.Continuous = append(config.Server.Continuous, k)
	}
	defer func() { config.Server.Schedule, config.Server.Continuous = nil, nil }()
	ts := StartServer(20)
	defer ts.Stop()
	_, port, _ := strings.Cut(ts.Addr, ":")
	config.Common.SSHPort, _ = strconv.Atoi(port)

	// 1. sessions of background users take every slot
	var held []*heldSession
	var fds []int
	defer func() {
		for _, fd := range fds {
			syscall.Close(fd)
		}
		for _, h := range held {
			h.close()
		}
	}()
	var holderFiles []string
	for i := 0; i < cs.Limit; i++ {
		name := "holder" + strconv.Itoa(i)
		var f, cmd, user string
		if cs.Job == "scheduled" {
			f = fmt.Sprintf("%s/hold%d.fifo", dir, i)
			if err := syscall.Mkfifo(f, 0o644); err != nil {
				return "harness: mkfifo: " + err.Error()
			}
			cmd, user = "cat "+f+" regex:noop ", config.ScheduleUser
		} else {
			f = fmt.Sprintf("%s/hold%d.log", dir, i)
			os.WriteFile(f, []byte("x\n"), 0o644)
			cmd, user = "tail "+f+" regex:noop ", config.ContinuousUser
		}
		holderFiles = append(holderFiles, f)
		h, err := startHeld(ts.Addr, user, name, cmd)
		if err != nil {
			return "harness: holder session: " + err.Error()
		}
		held = append(held, h)
		ok := WaitFor(30*time.Second, func() bool {
			if cs.Job == "scheduled" {
				fd, r := fifoHasReader(f)
				if r {
					fds = append(fds, fd)
				}
				return r
			}
			return openDescriptors(f) > 0
		})
		if !ok {
			return fmt.Sprintf("harness: the read of holder session %d did not start within 30 s", i)
		}
	}
	// 2. the job runner fires
	ctx, cancel := context.WithCancel(context.Background())
	defer cancel()
	jobDone := make(chan struct{})
	go func() {
		defer close(jobDone)
		if cs.Job == "scheduled" {
			ts.S.VerifRunScheduledJob(ctx, theS)
		} else {
			ts.S.VerifRunContinuousJob(ctx, theK)
		}
	}()
	reading := func() bool {
		if cs.Job == "scheduled" {
			fd, r := fifoHasReader(jobFile)
			if r {
				fds = append(fds, fd)
			}
			return r
		}
		return openDescriptors(jobFile) > 0
	}
	// positive polling for the violation; the wait ends early once the job's own connection is established and
	// its commands have had two seconds
	connected := time.Time{}
	early := WaitFor(20*time.Second, func() bool {
		if reading() {
			return true
		}
		if connected.IsZero() && ts.S.VerifConnections() > cs.Limit {
			connected = time.Now()
		}
		return !connected.IsZero() && time.Since(connected) > 2*time.Second
	})
	if early && reading() {
		return fmt.Sprintf("the %s job's file is being read while all %d slots are held by other running reads: %d concurrent reads, limit %d", cs.Job, cs.Limit, cs.Limit+1, cs.Limit)
	}
	// 3. one holder finishes: the job's read must proceed
	if cs.Job == "scheduled" {
		syscall.Close(fds[0]) // end of file for the first holder's cat
		fds = fds[1:]
	} else {
		held[0].close()
		held = held[1:]
	}
	if !WaitFor(60*time.Second, reading) {
		return fmt.Sprintf("the %s job's read did not start within 60 s after a running read finished and freed a slot", cs.Job)
	}
	if cs.Job == "scheduled" {
		// let the job finish: end of file on its FIFO
		for _, fd := range fds {
			syscall.Close(fd)
		}
		fds = nil
		select {
		case <-jobDone:
		case <-time.After(60 * time.Second):
			return "the scheduled job did not finish within 60 s after its file ended"
		}
		if _, err := os.Stat(theS.Outfile); err != nil {
			if m, _ := filepath.Glob(theS.Outfile + "*"); len(m) == 0 {
				return "the scheduled job finished without writing its outfile"
			}
		}
	}
	return ""
}

// descriptorsWithPrefix counts the descriptors of this process whose target starts with path (a removed file shows
// as "path (deleted)").
func descriptorsWithPrefix(path string) int {
	n := 0
	ents, _ := os.ReadDir("/proc/self/fd")
	for _, e := range ents {
		if l, err := os.Readlink("/proc/self/fd/" + e.Name()); err == nil && strings.HasPrefix(l, path) {
			n++
		}
	}
	return n
}

// c13nLastConnection: histories around the moment the server's LAST connection goes away while its read is still
// winding down.  Tail limit 1.  Session A follows a.log; ("removed") a.log is removed, so that A's reader ends up in
// its pause before re-opening, or ("plain") nothing happens; A's connection is closed abruptly; B follows b.log at
// once; a few seconds later C follows c.log.  Observed from outside (descriptors on the files): b.log and c.log are
// never read at the same time; and C's read starts once B has gone.
func c13nLastConnection(c *core.Ctx, kind string) string {
	Setup()
	dir := fmt.Sprintf("%s/c13n-last-%s", core.Scratch(), kind)
	os.RemoveAll(dir)
	os.MkdirAll(dir, 0o755)
	config.Server.MaxConcurrentCats, config.Server.MaxConcurrentTails = 1, 1
	config.Server.SSHBindAddress = "127.0.0.1"
	WriteAuthorizedKeys("alice", Keys[0].Line+"\n")
	ts := StartServer(20)
	defer ts.Stop()
	auth := ssh.PublicKeys(Keys[0].Signer)
	fa, fb, fc := dir+"/a.log", dir+"/b.log", dir+"/c.log"
	for _, f := range []string{fa, fb, fc} {
		os.WriteFile(f, []byte("x\n"), 0o644)
	}
	a, err := startHeldAuth(ts.Addr, "alice", auth, "tail "+fa+" regex:noop ")
	if err != nil {
		return "harness: session A: " + err.Error()
	}
	if !WaitFor(30*time.Second, func() bool { return openDescriptors(fa) > 0 }) {
		a.close()
		return "harness: the follow of a.log did not start within 30 s"
	}
	if kind == "removed" {
		os.Remove(fa)
		// the follower notices at its next periodic check (3 s), closes the file and pauses before it re-opens
		if !WaitFor(30*time.Second, func() bool { return descriptorsWithPrefix(fa) == 0 }) {
			a.close()
			return "harness: the follower of the removed file did not let go of it within 30 s"
		}
	}
	a.close() // the server's only connection goes away
	b, err := startHeldAuth(ts.Addr, "alice", auth, "tail "+fb+" regex:noop ")
	if err != nil {
		return "harness: session B: " + err.Error()
	}
	defer func() {
		if b != nil {
			b.close()
		}
	}()
	if !WaitFor(60*time.Second, func() bool { return openDescriptors(fb) > 0 }) {
		return "the follow of b.log did not start within 60 s although the only other session had ended (its slot was not given back)"
	}
	time.Sleep(3 * time.Second) // A's reader (pause of 2 s, poll of 100 ms) has noticed the end of its session by now
	cs, err := startHeldAuth(ts.Addr, "alice", auth, "tail "+fc+" regex:noop ")
	if err != nil {
		return "harness: session C: " + err.Error()
	}
	defer cs.close()
	// positive polling for the violation, 5 s
	if WaitFor(5*time.Second, func() bool { return openDescriptors(fb) > 0 && openDescriptors(fc) > 0 }) {
		return fmt.Sprintf("tail limit 1: after the server's last connection (a follow of a file that was %s) was closed, session B follows b.log and session C follows c.log AT THE SAME TIME: 2 concurrent reads, limit 1", map[string]string{"removed": "removed", "plain": "still there"}[kind])
	}
	b.close()
	b = nil
	if !WaitFor(60*time.Second, func() bool { return openDescriptors(fc) > 0 }) {
		return "the follow of c.log did not start within 60 s after the running follow ended and freed the slot"
	}
	return ""
}

func init() {
	core.Register(&core.Check{
		ID:       "C13N",
		ReportAs: "C13",
		Level:    "exploration",
		Rule: "native part: a real in-process server with limit 1 and 2; sessions of the background users over real SSH hold every slot (cat of a FIFO nobody writes to / tail of a regular file); then the real scheduled-job and continuous-job runner functions are " +
			"called as their timers do; observed from outside the code (FIFO has a reader / the process holds a descriptor on the file): the job's file is not read while all slots are held, and is read once one holder finishes; the scheduled job then completes and writes its outfile; plus two histories around the server's LAST connection going away while its read is still winding down (a follow of a file that was removed - the reader sits in its pause before re-opening - or of a file that is still there): the connection is closed, a second session follows another file at once and a third one three seconds later: the two files are never read at the same time (tail limit 1) and the third read starts once the second has gone",
		Assumptions: []string{"the job runner functions are called directly instead of waiting for the 2 s / 1 min timers of the scheduler loop"},
		Serial:      true,
		QuickBudget: 300 * time.Second,
		Run: func(c *core.Ctx) {
			os.Setenv("VERIF_NATIVE_LOGGER", "none")
			for _, job := range []string{"scheduled", "continuous"} {
				for _, lim := range []int{1, 2} {
					cs := c13nCase{job, lim}
					c.Count(fmt.Sprintf("%s|%d", job, lim))
					v := c13nRun(c, cs)
					if strings.HasPrefix(v, "harness:") {
						c.Res.HarnessErr = v
						return
					}
					if v != "" {
						sig := "background-job-read-not-counted"
						if !strings.Contains(v, "is being read while") {
							sig = "background-job-read-never-proceeds"
						}
						c.Violation(sig, v, cs)
					}
				}
			}
			for _, kind := range []string{"removed", "plain"} {
				c.Count("last-connection|" + kind)
				v := c13nLastConnection(c, kind)
				if strings.HasPrefix(v, "harness:") {
					c.Res.HarnessErr = v
					return
				}
				if v != "" {
					sig := "slot-of-a-running-read-taken-away"
					if !strings.Contains(v, "AT THE SAME TIME") {
						sig = "slot-not-given-back-after-the-last-connection"
					}
					c.Violation(sig, v, map[string]string{"history": "last connection closes (" + kind + "), then B, then C"})
				}
			}
			c.Sample(c13nCase{"scheduled", 1})
		},
	})
}
