package nharness

import (
	"context"
	"fmt"
	"os"
	"strconv"
	"strings"
	"time"

	"github.com/mimecast/dtail/internal/config"
	"github.com/mimecast/dtail/verif/core"
)

// C15 part 2 (native): repeated runs of a SCHEDULED job inside one long-living server against the same outfile
// (the consumer removes the outfile, which makes the scheduler run the job again).  After every run the outfile
// must hold the complete result of that run - and stay that way: nothing of a finished run may keep writing to
// the outfile or to the temporary file beside it, through which the next run's result is moved into place.

func c15nRun(c *core.Ctx) {
	os.Setenv("VERIF_NATIVE_LOGGER", "none")
	Setup()
	dir := core.Scratch() + "/c15n"
	os.RemoveAll(dir)
	os.MkdirAll(dir, 0o755)
	logFile, outfile := dir+"/app.log", dir+"/report.csv"
	config.Server.SSHBindAddress = "127.0.0.1"
	var job config.Scheduled
	job.Name, job.Enable, job.Files, job.AllowFrom = "report", true, logFile, []string{"127.0.0.1"}
	job.Query = "select count($line),k from STATS group by k interval 1"
	job.Outfile = outfile
	job.TimeRange = [2]int{0, 24}
	config.Server.Schedule = []config.Scheduled{job}
	defer func() { config.Server.Schedule = nil }()
	ts := StartServer(20)
	defer ts.Stop()
	_, port, _ := strings.Cut(ts.Addr, ":")
	config.Common.SSHPort, _ = strconv.Atoi(port)
	ctx, cancel := context.WithCancel(context.Background()) // the server's context: lives as long as the server
	defer cancel()
	lines := 0
	for round := 1; round <= 3; round++ {
		if c.Expired() {
			return
		}
		// the log grows, the consumer has taken the previous result away
		f, _ := os.OpenFile(logFile, os.O_WRONLY|os.O_APPEND|os.O_CREATE, 0o644)
		for i := 0; i < 30; i++ {
			fmt.Fprintf(f, "INFO|20211002-071209|1|f.go:1|8|10|0|0.1|1h|MAPREDUCE:STATS|k=%d|v=%d\n", lines%3, lines)
			lines++
		}
		f.Close()
		os.Remove(outfile)
		done := make(chan struct{})
		go func() { ts.S.VerifRunScheduledJob(ctx, job); close(done) }()
		select {
		case <-done:
		case <-time.After(90 * time.Second):
			c.Violation("scheduled-job-does-not-end", fmt.Sprintf("round %d: the scheduled job did not end within 90 s", round), round)
			return
		}
		c.Count(fmt.Sprintf("scheduled-run|%d", round))
		want := fmt.Sprintf("count($line),k\n%d,0\n%d,1\n%d,2\n", lines/3, lines/3, lines/3)
		read := func() string {
			b, err := os.ReadFile(outfile)
			if err != nil {
				return "<absent>"
			}
			rows := strings.Split(strings.TrimSpace(string(b)), "\n")
			if len(rows) > 1 {
				// rows are in no particular order
				body := rows[1:]
				for i := range body {
					for j := i + 1; j < len(body); j++ {
						if body[j][strings.LastIndex(body[j], ",")+1:] < body[i][strings.LastIndex(body[i], ",")+1:] {
							body[i], body[j] = body[j], body[i]
						}
					}
				}
			}
			return strings.Join(rows, "\n") + "\n"
		}
		if got := read(); got != want {
			c.Violation("scheduled-job-outfile-incomplete", fmt.Sprintf("round %d: after the scheduled job ended the outfile holds %q, want the complete result %q", round, got, want), round)
			return
		}
		// the job is done.  One query interval later everything of that run must have come to rest (its reporter may
		// be in the middle of one last interim write when the run ends): from then on, for another two and a half
		// intervals, nothing may touch the outfile or the temporary file beside it
		ended := time.Now()
		time.Sleep(1100 * time.Millisecond)
		stamp := func() string {
			fi, err := os.Stat(outfile + ".tmp")
			if err != nil {
				return "absent"
			}
			return fmt.Sprintf("%d bytes, modified %s", fi.Size(), fi.ModTime().Format("15:04:05.000000"))
		}
		rest := stamp()
		deadline := ended.Add(3600 * time.Millisecond)
		for time.Now().Before(deadline) {
			if now := stamp(); now != rest {
				c.Violation("finished-job-keeps-writing-beside-the-outfile", fmt.Sprintf("round %d: %d ms after the scheduled job ended, %s.tmp was written again (%s, before: %s): something of the finished run still writes interim results to the temporary file through which the next run moves its result into place", round, time.Since(ended).Milliseconds(), "report.csv", now, rest), round)
				return
			}
			if got := read(); got != want {
				c.Violation("outfile-changes-after-the-job-ended", fmt.Sprintf("round %d: the outfile changed after the job had ended: %q", round, got), round)
				return
			}
			time.Sleep(20 * time.Millisecond)
		}
	}
	c.Sample(map[string]interface{}{"rounds": 3, "query": job.Query})
}

func init() {
	core.Register(&core.Check{
		ID:       "C15N",
		ReportAs: "C15",
		Level:    "exploration",
		Rule: "native part: three runs of a scheduled job (query with 'interval 1') inside one real server against the same outfile, the outfile removed and the log grown between runs, the real job-runner function called as the scheduler's timer does; after every run the outfile holds that run's complete result, " +
			"and from one query interval after its end, for another 2.5 intervals, neither the outfile nor <outfile>.tmp is written any more (a writer left behind by a finished run would tear the next run's result)",
		Assumptions: []string{"the job-runner function is called directly instead of waiting for the scheduler's one-minute timer"},
		Serial:      true,
		QuickBudget: 200 * time.Second,
		Run:         c15nRun,
	})
}
