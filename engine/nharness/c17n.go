package nharness

import (
	"bufio"
	"context"
	"crypto/ed25519"
	"crypto/rand"
	"fmt"
	"io"
	"os"
	"os/exec"
	"path/filepath"
	"strings"
	"sync"
	"time"

	sshclient "github.com/mimecast/dtail/internal/ssh/client"
	"github.com/mimecast/dtail/verif/core"
	"golang.org/x/crypto/ssh"
)

// C17 part 2 (native): the host-key check as the REAL dcat binary performs it when it dials a server BY NAME.
// The server (a process of its own) listens on 127.0.0.1:P and presents host key K1; the client is told
// "localhost:P".  known_hosts files are built from entries for the name and for the address, with K1 or with
// another key K2; the user's answer comes from standard input.  The connection may go ahead (the file content is
// printed) iff known_hosts accepts K1 for the NAME the user asked for, or the user approves.

func c17nRun(c *core.Ctx) {
	Setup()
	self, err := os.Executable()
	if err != nil {
		c.Res.HarnessErr = "os.Executable: " + err.Error()
		return
	}
	dcat := filepath.Join(filepath.Dir(self), "dcat")
	home := core.Scratch() + "/c17n-home"
	os.MkdirAll(home+"/.ssh", 0o700)
	keyFile := home + "/id_rsa"
	sshclient.GeneratePrivatePublicKeyPairIfNotExists(keyFile, 2048)
	pub, err := os.ReadFile(keyFile + ".pub")
	if err != nil {
		c.Res.HarnessErr = "client key: " + err.Error()
		return
	}
	file := core.Scratch() + "/c17n-secret.log"
	os.WriteFile(file, []byte("CONTENT-ONLY-FOR-TRUSTED-HOSTS\n"), 0o644)
	srv := exec.Command(self, "serve", "1048576", strings.TrimSpace(string(pub)))
	srv.Env = append(os.Environ(), "VERIF_NATIVE_LOGGER=none")
	stdin, _ := srv.StdinPipe()
	stdout, _ := srv.StdoutPipe()
	if err := srv.Start(); err != nil {
		c.Res.HarnessErr = "starting the server process: " + err.Error()
		return
	}
	defer func() {
		stdin.Close()
		done := make(chan struct{})
		go func() { srv.Wait(); close(done) }()
		select {
		case <-done:
		case <-time.After(10 * time.Second):
			srv.Process.Kill()
			<-done
		}
	}()
	rd := bufio.NewReader(stdout)
	var hostKey, addr string
	for i := 0; i < 2; i++ {
		l, err := rd.ReadString('\n')
		if err != nil {
			break
		}
		if strings.HasPrefix(l, "HOSTKEY ") {
			hostKey = strings.TrimSpace(strings.TrimPrefix(l, "HOSTKEY "))
		}
		if strings.HasPrefix(l, "ADDR ") {
			addr = strings.TrimSpace(strings.TrimPrefix(l, "ADDR "))
		}
	}
	if hostKey == "" || addr == "" {
		c.Res.HarnessErr = "the server process did not report its host key and address"
		return
	}
	go io.Copy(io.Discard, rd)
	port := addr[strings.LastIndex(addr, ":")+1:]
	_, k2priv, _ := ed25519.GenerateKey(rand.Reader)
	s2, _ := ssh.NewSignerFromKey(k2priv)
	otherKey := strings.TrimSpace(string(ssh.MarshalAuthorizedKey(s2.PublicKey())))
	name, ip := "[localhost]:"+port, "[127.0.0.1]:"+port
	entries := map[string]string{
		"name=K1": name + " " + hostKey, "name=K2": name + " " + otherKey,
		"addr=K1": ip + " " + hostKey, "addr=K2": ip + " " + otherKey,
		"other-host": "[elsewhere.example.org]:" + port + " " + hostKey,
	}
	order := []string{"name=K1", "name=K2", "addr=K1", "addr=K2", "other-host"}
	// (not --plain: in plain/quiet mode the prompt only appears when some other goroutine logs a line - the prompt
	// pauses the logger and waits for it - so an unknown host cannot be approved at all there; see DESIGN.md 9.8)
	// a client that was refused does not necessarily end by itself (that is not this property's business): every
	// run gets 12 s, which is ample for the prompt (it appears with the client's first statistics line after 3 s) plus a hand-shake on the loopback interface; what it
	// printed until then decides.  Each run has its own HOME.
	limit := 12 * time.Second
	run := func(id int, knownHosts, answer string) string {
		h := fmt.Sprintf("%s/run-%d", home, id)
		os.MkdirAll(h+"/.ssh", 0o700)
		os.WriteFile(h+"/.ssh/known_hosts", []byte(knownHosts), 0o600)
		ctx, cancel := context.WithTimeout(context.Background(), limit)
		defer cancel()
		cmd := exec.CommandContext(ctx, dcat, "--noColor", "--cfg", "none", "--servers", "localhost:"+port, "--user", "alice", "--key", keyFile, "--files", file)
		cmd.Env = append(os.Environ(), "HOME="+h)
		pr, pw := io.Pipe()
		cmd.Stdin = pr
		go func() { pw.Write([]byte(answer)); <-ctx.Done(); pw.Close() }() // the terminal stays open after the answer
		out, _ := cmd.Output()
		os.RemoveAll(h)
		return string(out)
	}
	// every subset of the entry kinds (a line for the name and a line for the address may disagree) x the answers
	type job struct {
		kinds             []string
		kh, answer        string
		nameOK, nameOther bool
	}
	var jobs []job
	for mask := 0; mask < 1<<len(order); mask++ {
		var kh []string
		var kinds []string
		nameOK, nameOther := false, false
		for i, k := range order {
			if mask&(1<<i) != 0 {
				kh = append(kh, entries[k])
				kinds = append(kinds, k)
				if k == "name=K1" {
					nameOK = true
				}
				if k == "name=K2" {
					nameOther = true
				}
			}
		}
		if nameOK && nameOther {
			continue // two keys for one name: both are valid entries, accepted (not interesting here)
		}
		if !c.Thorough() && len(kinds) > 2 {
			continue
		}
		for _, answer := range []string{"n\n", "y\n"} {
			jobs = append(jobs, job{kinds, strings.Join(kh, "\n") + "\n", answer, nameOK, nameOther})
		}
	}
	outs := make([]string, len(jobs))
	sem := make(chan struct{}, 8)
	var wg sync.WaitGroup
	for i, j := range jobs {
		wg.Add(1)
		sem <- struct{}{}
		go func(i int, j job) {
			defer func() { <-sem; wg.Done() }()
			outs[i] = run(i, j.kh, j.answer)
		}(i, j)
	}
	wg.Wait()
	for i, j := range jobs {
		{
			kinds, answer, nameOK, nameOther, out := j.kinds, j.answer, j.nameOK, j.nameOther, outs[i]
			c.Count(fmt.Sprintf("%v|%q", kinds, answer))
			proceeded := strings.Contains(out, "CONTENT-ONLY-FOR-TRUSTED-HOSTS")
			if !proceeded && (nameOK || answer == "y\n") {
				// "did not go ahead" is a negative observation under a time limit: on a loaded machine confirm it
				// with a generous limit before believing it
				limit = 90 * time.Second
				out = run(100000+i, j.kh, j.answer)
				limit = 12 * time.Second
				proceeded = strings.Contains(out, "CONTENT-ONLY-FOR-TRUSTED-HOSTS")
			}
			// the name the user asked for decides: listed with the presented key -> trusted; otherwise the user is asked
			want := nameOK || answer == "y\n"
			if nameOther && !nameOK {
				// a DIFFERENT key is on record for this name: the host must not be trusted silently; the user is asked
				want = answer == "y\n"
			}
			if proceeded != want {
				c.Violation("wrong-trust-decision-for-a-server-contacted-by-name", fmt.Sprintf("dcat --servers localhost:%s; the server presents key K1; known_hosts holds %v; the user answers %q: the connection went ahead = %v, want %v (output %q)",
					port, kinds, strings.TrimSpace(answer), proceeded, want, clip(out)), kinds)
			}
		}
	}
	c.Sample(map[string]interface{}{"known_hosts": []string{"name=K2", "addr=K1"}, "answer": "n", "contacted": "localhost:<port>"})
}

func init() {
	core.Register(&core.Check{
		ID:       "C17N",
		ReportAs: "C17",
		Level:    "exploration",
		Rule: "native part: the real dcat binary contacts a dtail server process BY NAME (localhost:P, the server listens on 127.0.0.1:P and presents key K1); known_hosts = every subset (quick: of at most two) of {name with K1, name with another key, address with K1, address with another key, " +
			"unrelated host} x answers n / y on standard input; oracle: the connection goes ahead (file content printed) iff the entry for the NAME carries K1 or the user approves",
		Assumptions: []string{"localhost resolves to 127.0.0.1"},
		Serial:      true,
		QuickBudget: 200 * time.Second,
		Run:         c17nRun,
	})
}
