// Package nharness holds the harnesses that run natively (no rewriting): the
// real SSH server and client over loopback.
package nharness
