// Package nharness holds the harnesses that run natively (no rewriting): the
// real SSH server and client over loopback.
package nharness

import "encoding/json"

func jsonUnmarshal(b []byte, v interface{}) error { return json.Unmarshal(b, v) }
