package nharness

import (
	"crypto/ecdsa"
	"crypto/ed25519"
	"crypto/elliptic"
	"crypto/rand"
	"crypto/rsa"
	"fmt"
	"net"
	"os"
	"strings"
	"time"

	"github.com/mimecast/dtail/internal/config"
	sshserver "github.com/mimecast/dtail/internal/ssh/server"
	userserver "github.com/mimecast/dtail/internal/user/server"
	"github.com/mimecast/dtail/verif/core"
	"golang.org/x/crypto/ssh"
)

// C09: sessions are granted only to authorised keys and the fixed service users.

type fakeMeta struct {
	user   string
	remote net.Addr
}

func (f fakeMeta) User() string          { return f.user }
func (f fakeMeta) SessionID() []byte     { return []byte("sid") }
func (f fakeMeta) ClientVersion() []byte { return []byte("SSH-2.0-verif") }
func (f fakeMeta) ServerVersion() []byte { return []byte("SSH-2.0-dtail") }
func (f fakeMeta) RemoteAddr() net.Addr  { return f.remote }
func (f fakeMeta) LocalAddr() net.Addr   { return &net.TCPAddr{IP: net.ParseIP("127.0.0.1"), Port: 2222} }

type c09KeyCase struct {
	Lines        []string `json:"authorized_keys_lines"`
	FinalNewline bool     `json:"final_newline"`
	Offered      int      `json:"offered_key"`
}

func c09KeyLines() (names []string, text map[string]string, key map[string]int, wellFormed map[string]bool) {
	Setup()
	text = map[string]string{
		"K0":          Keys[0].Line,
		"K1":          Keys[1].Line,
		"K2":          Keys[2].Line,
		"K0+options":  `no-pty,command="/bin/true",from="10.0.0.*" ` + Keys[0].Line,
		"K1+comment":  Keys[1].Line + " alice@laptop with spaces",
		"#comment":    "# a comment",
		"blank":       "",
		"spaces":      "   ",
		"garbage":     "garbage",
		"K2+crlf":     Keys[2].Line + "\r",
		"#comment-k3": "# " + Keys[3].Line,
	}
	key = map[string]int{"K0": 0, "K1": 1, "K2": 2, "K0+options": 0, "K1+comment": 1, "K2+crlf": 2}
	wellFormed = map[string]bool{"K0": true, "K1": true, "K2": true, "K0+options": true, "K1+comment": true, "#comment": true, "blank": true, "spaces": true, "#comment-k3": true}
	names = []string{"K0", "K1", "K2", "K0+options", "K1+comment", "#comment", "blank", "spaces", "garbage", "K2+crlf", "#comment-k3"}
	return
}

func c09Keys(c *core.Ctx) {
	names, text, keyOf, wf := c09KeyLines()
	u, err := userserver.New("alice", "127.0.0.1:5555")
	if err != nil {
		panic(err)
	}
	n := 3
	if c.Thorough() {
		n = 4
	}
	var rec func(cur []string)
	rec = func(cur []string) {
		if len(cur) > 0 && c.Mine() {
			for _, fin := range []bool{true, false} {
				content := ""
				listed := map[int]bool{}
				well := true
				for i, l := range cur {
					content += text[l]
					if i < len(cur)-1 || fin {
						content += "\n"
					}
					if k, ok := keyOf[l]; ok {
						listed[k] = true
					}
					if !wf[l] {
						well = false
					}
				}
				for off := 0; off < 4; off++ {
					_, err := sshserver.VerifVerifyAuthorizedKeys(u, []byte(content), Keys[off].Pub)
					accepted := err == nil
					key := ""
					if len(listed) > 0 {
						key = fmt.Sprintf("%v|%v|%d", cur, fin, off)
					}
					c.Count(key)
					cs := c09KeyCase{cur, fin, off}
					if accepted && !listed[off] {
						c.Violation("unlisted-key-accepted", fmt.Sprintf("authorized_keys lines %v (final newline %v): key %d is not listed but was accepted", cur, fin, off), cs)
					}
					if !accepted && listed[off] && well {
						sig := "listed-key-rejected"
						last := cur[len(cur)-1]
						if _, isKey := keyOf[last]; !isKey {
							sig = "listed-key-rejected-when-file-ends-with-comment-or-blank-line"
						}
						c.Violation(sig, fmt.Sprintf("well-formed authorized_keys lines %v (final newline %v): listed key %d was rejected: %v", cur, fin, off, err), cs)
					}
				}
			}
		}
		if len(cur) == n {
			return
		}
		for _, x := range names {
			rec(append(cur, x))
		}
	}
	rec(nil)
}

type c09PwCase struct {
	User     string `json:"user"`
	Password string `json:"password"`
	Remote   string `json:"remote"`
	Jobs     string `json:"jobs"`
}

func c09Passwords(c *core.Ctx) {
	ts := StartServer(10)
	defer ts.Stop()
	jobConfigs := map[string]func(){
		"none": func() { config.Server.Schedule = nil; config.Server.Continuous = nil },
		"sched(job1 from 127.0.0.1)": func() {
			config.Server.Schedule = make([]config.Scheduled, 1)
			config.Server.Schedule[0].Name = "job1"
			config.Server.Schedule[0].AllowFrom = []string{"127.0.0.1"}
			config.Server.Continuous = nil
		},
		"sched(job1 from 10.9.9.9) cont(job2 from 127.0.0.1,10.1.1.1)": func() {
			config.Server.Schedule = make([]config.Scheduled, 1)
			config.Server.Schedule[0].Name = "job1"
			config.Server.Schedule[0].AllowFrom = []string{"10.9.9.9"}
			config.Server.Continuous = make([]config.Continuous, 1)
			config.Server.Continuous[0].Name = "job2"
			config.Server.Continuous[0].AllowFrom = []string{"127.0.0.1", "10.1.1.1"}
		},
		"sched(job1 from 2001:db8::7,127.0.0.1)": func() {
			config.Server.Schedule = make([]config.Scheduled, 1)
			config.Server.Schedule[0].Name = "job1"
			config.Server.Schedule[0].AllowFrom = []string{"2001:db8::7", "127.0.0.1"}
			config.Server.Continuous = nil
		},
		"sched(job1 no allow list)": func() {
			config.Server.Schedule = make([]config.Scheduled, 1)
			config.Server.Schedule[0].Name = "job1"
			config.Server.Continuous = nil
		},
	}
	allowed := map[string]map[string]map[string][]string{ // jobs -> user -> password -> allowed remote IPs
		"none":                       {},
		"sched(job1 from 127.0.0.1)": {config.ScheduleUser: {"job1": {"127.0.0.1"}}},
		"sched(job1 from 10.9.9.9) cont(job2 from 127.0.0.1,10.1.1.1)": {config.ScheduleUser: {"job1": {"10.9.9.9"}},
			config.ContinuousUser: {"job2": {"127.0.0.1", "10.1.1.1"}}},
		"sched(job1 no allow list)":              {},
		"sched(job1 from 2001:db8::7,127.0.0.1)": {config.ScheduleUser: {"job1": {"2001:db8::7", "127.0.0.1"}}},
	}
	users := []string{config.HealthUser, config.ScheduleUser, config.ContinuousUser, "alice", "root", "",
		strings.ToLower(config.HealthUser), "Dtail-Health", strings.ToLower(config.ScheduleUser), config.HealthUser + " ", "dtail-continuous"}
	passwords := []string{config.HealthUser, config.HealthUser + "x", strings.ToLower(config.HealthUser), "job1", "job2", "job", "wrong", "", "DTAIL-HEALTH "}
	remotes := []string{"127.0.0.1", "10.9.9.9", "10.1.1.1", "192.168.1.1", "::1", "2001:db8::99", "2001:db8::7"}
	for jn, set := range jobConfigs {
		set()
		for _, u := range users {
			for _, pw := range passwords {
				for _, rem := range remotes {
					meta := fakeMeta{user: u, remote: &net.TCPAddr{IP: net.ParseIP(rem), Port: 40000}}
					_, err := ts.S.Callback(meta, []byte(pw))
					got := err == nil
					want := false
					if u == config.HealthUser && pw == config.HealthUser {
						want = true
					}
					eitherOK := false
					for _, ip := range allowed[jn][u][pw] {
						if ip == rem {
							want = true
							// a listed IPv6 client: the statement only limits who MAY be let in ("only to ... whose address
							// is on that job's allow list"); the pinned server refuses every IPv6 peer, which is allowed
							eitherOK = strings.Contains(rem, ":")
						}
					}
					if eitherOK {
						c.Count("")
						continue
					}
					key := ""
					if want {
						key = fmt.Sprintf("%s|%s|%s|%s", jn, u, pw, rem)
					}
					c.Count("pw|" + key)
					if got != want {
						sig := "password-login-wrongly-granted"
						if !got {
							sig = "password-login-wrongly-refused"
						}
						c.Violation(sig, fmt.Sprintf("jobs %s: user %q password %q from %s: granted=%v, want %v", jn, u, pw, rem, got, want), c09PwCase{u, pw, rem, jn})
					}
				}
			}
		}
	}
	config.Server.Schedule, config.Server.Continuous = nil, nil
}

// dial performs a real SSH handshake against the test server.
func dial(addr, user string, auth ssh.AuthMethod) (*ssh.Client, error) {
	cfg := &ssh.ClientConfig{User: user, Auth: []ssh.AuthMethod{auth}, HostKeyCallback: ssh.InsecureIgnoreHostKey(), Timeout: 10 * time.Second}
	return ssh.Dial("tcp", addr, cfg)
}

func c09Handshakes(c *core.Ctx) {
	ts := StartServer(10)
	defer ts.Stop()
	secret := core.WriteScratch("c09/secret.log", "TOP SECRET CONTENT\n")
	WriteAuthorizedKeys("alice", "# keys of alice\n"+Keys[0].Line+" first\n\n"+Keys[1].Line+"\n")
	type hs struct {
		name string
		user string
		auth ssh.AuthMethod
		want bool
	}
	// the account that runs the server has an authorized-keys file of its own (key 3): it is nobody else's
	home := core.Scratch() + "/c09-home"
	os.MkdirAll(home+"/.ssh", 0o700)
	os.WriteFile(home+"/.ssh/authorized_keys", []byte(Keys[3].Line+" the server account's own key\n"), 0o600)
	oldHome := os.Getenv("HOME")
	os.Setenv("HOME", home)
	defer os.Setenv("HOME", oldHome)
	cases := []hs{
		{"a user unknown to the system and without a file, offering the key of the account that runs the server", "no-such-user-zz", ssh.PublicKeys(Keys[3].Signer), false},
		{"a user unknown to the system and without a file, offering alice's key", "no-such-user-zz", ssh.PublicKeys(Keys[0].Signer), false},
		{"listed user offering the key of the account that runs the server", "alice", ssh.PublicKeys(Keys[3].Signer), false},
		{"listed rsa key", "alice", ssh.PublicKeys(Keys[0].Signer), true},
		{"listed ed25519 key", "alice", ssh.PublicKeys(Keys[1].Signer), true},
		{"unlisted key", "alice", ssh.PublicKeys(Keys[2].Signer), false},
		{"listed key of another user", "bob", ssh.PublicKeys(Keys[0].Signer), false},
		{"health user, health password", config.HealthUser, ssh.Password(config.HealthUser), true},
		{"health user, wrong password", config.HealthUser, ssh.Password("nope"), false},
		{"ordinary user with the health password", "alice", ssh.Password(config.HealthUser), false},
		{"schedule user, no jobs configured", config.ScheduleUser, ssh.Password("job1"), false},
		{"health user with a key", config.HealthUser, ssh.PublicKeys(Keys[0].Signer), false},
		{"lower-case health user name with the health password", strings.ToLower(config.HealthUser), ssh.Password(config.HealthUser), false},
		{"mixed-case health user name with the health password", "Dtail-Health", ssh.Password(config.HealthUser), false},
	}
	// every key type the SSH library supports, all listed in one authorized-keys file of carol
	{
		var file strings.Builder
		file.WriteString("# carol's keys, one per type\n")
		type tk struct {
			name   string
			signer ssh.Signer
		}
		var tks []tk
		add := func(name string, key interface{}) {
			s, err := ssh.NewSignerFromKey(key)
			if err != nil {
				panic(err)
			}
			tks = append(tks, tk{name, s})
			file.Write(ssh.MarshalAuthorizedKey(s.PublicKey()))
		}
		rk, _ := rsa.GenerateKey(rand.Reader, 2048)
		add("rsa-2048 (rsa-sha2-512 signature)", rk)
		_, ek, _ := ed25519.GenerateKey(rand.Reader)
		add("ed25519", ek)
		for _, cv := range []elliptic.Curve{elliptic.P256(), elliptic.P384(), elliptic.P521()} {
			k, _ := ecdsa.GenerateKey(cv, rand.Reader)
			add("ecdsa-"+cv.Params().Name, k)
		}
		WriteAuthorizedKeys("carol", file.String())
		for _, k := range tks {
			cases = append(cases, hs{"listed key of type " + k.name, "carol", ssh.PublicKeys(k.signer), true})
		}
		// the same RSA key signing with each RSA signature algorithm
		if as, ok := tks[0].signer.(ssh.AlgorithmSigner); ok {
			for _, alg := range []string{ssh.KeyAlgoRSA, ssh.KeyAlgoRSASHA256, ssh.KeyAlgoRSASHA512} {
				if ms, err := ssh.NewSignerWithAlgorithms(as, []string{alg}); err == nil {
					cases = append(cases, hs{"listed rsa key signing with " + alg, "carol", ssh.PublicKeys(ms), true})
				}
			}
		}
	}
	// user names of every length and shape an account can have (LOGIN_NAME_MAX is 256; directory-service accounts are
	// long, carry dots, dashes, '@domain', upper-case and non-ASCII letters): each has a well-formed file listing key 0
	{
		names := []string{"a", "u1234567", strings.Repeat("n", 31), strings.Repeat("n", 32), strings.Repeat("m", 33), "svc-observability-logshipper-production-eu-central-1",
			strings.Repeat("l", 64), strings.Repeat("k", 128), strings.Repeat("j", 200), "first.last", "first_last-2", "user@example.org", "Alice", "ALLCAPS", "zoë", "üser", "name+tag", "9lives", "x.y.z-w_v"}
		for _, n := range names {
			WriteAuthorizedKeys(n, "# "+n+"\n"+Keys[0].Line+"\n")
			short := n
			if len(short) > 40 {
				short = fmt.Sprintf("%s... (%d bytes)", n[:12], len(n))
			}
			cases = append(cases, hs{"user name " + short + ": listed key", n, ssh.PublicKeys(Keys[0].Signer), true},
				hs{"user name " + short + ": unlisted key", n, ssh.PublicKeys(Keys[2].Signer), false})
		}
	}
	for _, h := range cases {
		cl, err := dial(ts.Addr, h.user, h.auth)
		got := err == nil
		c.Count("handshake|" + h.name)
		if got != h.want {
			c.Violation("handshake-outcome-wrong", fmt.Sprintf("real SSH handshake %q: session granted=%v (%v), want %v", h.name, got, err, h.want), h.name)
		}
		if cl != nil {
			cl.Close()
		}
	}
	// a health session can run nothing but the health command
	for _, cmd := range []string{"health", "cat " + secret + " regex:noop ", "grep " + secret + " regex:default SECRET", "tail " + secret + " regex:noop ",
		"map select count($line) logformat generic", ".ack close connection", "", "health " + secret} {
		cl, err := dial(ts.Addr, config.HealthUser, ssh.Password(config.HealthUser))
		if err != nil {
			c.Violation("health-login-failed", err.Error(), cmd)
			continue
		}
		out, ended := runSession(cl, cmd, 15*time.Second)
		c.Count("health-session|" + cmd)
		if strings.Contains(out, "TOP SECRET CONTENT") {
			c.Violation("health-session-read-a-file", fmt.Sprintf("health session, command %q: received file content %q", cmd, out), cmd)
		}
		if !ended {
			c.Violation("health-session-does-not-end", fmt.Sprintf("health session, command %q: the session was still open after 15 s; output %q", cmd, out), cmd)
		}
		if cmd == "health" && !strings.Contains(out, "OK") {
			c.Violation("health-command-broken", fmt.Sprintf("health command answered %q", out), cmd)
		}
		cl.Close()
	}
	c.Sample(map[string]interface{}{"handshake": cases[2].name, "health_session_command": "cat <secret file>"})
}

// runSession opens a shell, sends one framed command, collects the output until
// the server ends the session (acknowledging the close hand-shake like the real client).
func runSession(cl *ssh.Client, cmd string, cap time.Duration) (string, bool) {
	s, err := cl.NewSession()
	if err != nil {
		return "", true
	}
	defer s.Close()
	in, _ := s.StdinPipe()
	outp, _ := s.StdoutPipe()
	if err := s.Shell(); err != nil {
		return "", true
	}
	in.Write(core.WireCommand(cmd))
	type chunk struct {
		b   []byte
		err error
	}
	ch := make(chan chunk, 64)
	go func() {
		for {
			buf := make([]byte, 32*1024)
			n, err := outp.Read(buf)
			ch <- chunk{buf[:n], err}
			if err != nil {
				return
			}
		}
	}()
	var out strings.Builder
	deadline := time.After(cap)
	acked := false
	for {
		select {
		case k := <-ch:
			out.Write(k.b)
			if !acked && strings.Contains(out.String(), ".syn close connection") {
				acked = true
				in.Write(core.WireCommand(".ack close connection"))
			}
			if k.err != nil {
				return out.String(), true
			}
		case <-deadline:
			return out.String(), false
		}
	}
}

// fakeConn is the connection metadata the SSH library hands to the server's callbacks.
type fakeConn struct {
	user    string
	session string
}

func (f fakeConn) User() string          { return f.user }
func (f fakeConn) SessionID() []byte     { return []byte(f.session) }
func (f fakeConn) ClientVersion() []byte { return []byte("SSH-2.0-verif") }
func (f fakeConn) ServerVersion() []byte { return []byte("SSH-2.0-dtail") }
func (f fakeConn) RemoteAddr() net.Addr {
	return &net.TCPAddr{IP: net.IPv4(127, 0, 0, 1), Port: 40000 + len(f.session)}
}
func (f fakeConn) LocalAddr() net.Addr { return &net.TCPAddr{IP: net.IPv4(127, 0, 0, 1), Port: 2222} }

// c09CallbackHistories: the SSH protocol lets a client send any number of authentication requests on one
// connection, each naming its own user and key.  Every sequence of <=3 requests over 2 connections x 3 users x 3
// keys goes through the real PublicKeyCallback; each answer must depend on that request's user and key alone.
// c09BigFile: an authorized-keys file with hundreds of keys (and a very long comment line); the listed key is the
// first, a middle and the last one; an unlisted key is refused.
func c09BigFile(c *core.Ctx) {
	u, err := userserver.New("alice", "127.0.0.1:5555")
	if err != nil {
		panic(err)
	}
	var lines []string
	for i := 0; i < 400; i++ {
		_, k, _ := ed25519.GenerateKey(rand.Reader)
		s, _ := ssh.NewSignerFromKey(k)
		l := string(ssh.MarshalAuthorizedKey(s.PublicKey()))
		lines = append(lines, strings.TrimSpace(l)+fmt.Sprintf(" user%d@host", i))
	}
	for _, pos := range []int{0, 199, 399, -1} {
		ls := append([]string{}, lines...)
		if pos >= 0 {
			ls[pos] = Keys[1].Line + " the one"
		}
		ls = append(ls[:100], append([]string{"# " + strings.Repeat("c", 70000)}, ls[100:]...)...)
		_, err := sshserver.VerifVerifyAuthorizedKeys(u, []byte(strings.Join(ls, "\n")+"\n"), Keys[1].Pub)
		c.Count(fmt.Sprintf("bigfile|%d", pos))
		if (err == nil) != (pos >= 0) {
			c.Violation(map[bool]string{true: "listed-key-rejected", false: "unlisted-key-accepted"}[pos >= 0], fmt.Sprintf("authorized_keys with 400 keys and a 70000-byte comment line, the offered key at position %d (-1 = not listed): accepted=%v (%v)", pos, err == nil, err), pos)
		}
	}
}

func c09CallbackHistories(c *core.Ctx) {
	WriteAuthorizedKeys("alice", Keys[0].Line+"\n")
	WriteAuthorizedKeys("mallory", "# mallory\n"+Keys[1].Line+"\n"+Keys[2].Line+"\n")
	os.Remove(fmt.Sprintf("%s/cache/nokeys.authorized_keys", core.Scratch()))
	listed := map[string]map[int]bool{"alice": {0: true}, "mallory": {1: true, 2: true}, "nokeys": {}}
	type req struct {
		Session string `json:"connection"`
		User    string `json:"user"`
		Key     int    `json:"key"`
	}
	var alpha []req
	for _, s := range []string{"conn-1", "conn-2"} {
		for _, u := range []string{"alice", "mallory", "nokeys"} {
			for k := 0; k < 3; k++ {
				alpha = append(alpha, req{s, u, k})
			}
		}
	}
	n := 3
	var rec func(cur []req)
	item := 0
	rec = func(cur []req) {
		if len(cur) > 0 {
			item++
			if item%c.NShards == c.Shard {
				for i, r := range cur {
					_, err := sshserver.PublicKeyCallback(fakeConn{r.User, r.Session}, Keys[r.Key].Pub)
					got, want := err == nil, listed[r.User][r.Key]
					if i == len(cur)-1 {
						key := ""
						if want {
							key = fmt.Sprintf("callback-history|%v", cur)
						}
						c.Count(key)
					}
					if got != want {
						sig := "key-accepted-for-a-user-who-does-not-list-it"
						if want {
							sig = "listed-key-rejected-after-other-requests-on-the-connection"
						}
						c.Violation(sig, fmt.Sprintf("authentication requests %+v on the real PublicKeyCallback (alice lists key 0, mallory keys 1 and 2, nokeys has no file): request %d answered accepted=%v, want %v", cur, i+1, got, want), cur)
						return
					}
				}
			}
		}
		if len(cur) == n {
			return
		}
		for _, a := range alpha {
			rec(append(append([]req{}, cur...), a))
		}
	}
	rec(nil)
}

func init() {
	core.Register(&core.Check{
		ID:    "C09",
		Level: "exploration",
		Rule: "A: authorized_keys files = all sequences of <=3 (quick) / <=4 (thorough) lines over 11 line kinds (rsa/ed25519/ecdsa keys, key with options, key with comment, comment, blank, whitespace, garbage word, CRLF, commented-out key), " +
			"with/without final newline, x 4 offered keys, through the real verifyAuthorizedKeys: an unlisted key is never accepted, and every key listed in a well-formed file is accepted.  B: the real Server.Callback for 11 user names (incl. case variants of the service users) x 9 passwords x " +
			"7 source addresses (IPv4 and IPv6) x 5 job configurations: granted <=> health user with the health password, or job user whose password is a configured job name and whose address is on that job's allow list.  C: 57 real SSH handshakes (incl. one per key type rsa/ed25519/ecdsa-P256/P384/P521 and per RSA signature algorithm; and 19 user names of 1..200 bytes with dots, dashes, '@domain', upper-case and non-ASCII letters, each with the listed and an unlisted key) against an " +
			"in-process server and 8 commands in a real health session (no file content, session ends).  D: every sequence of <=3 authentication requests over 2 connections x 3 users x 3 keys through the real PublicKeyCallback (a client may name a different user in every request): each answer depends on that request's user and key alone.  non-trivial = cases where a grant is expected",
		Assumptions: []string{"proof of key possession and signature checks are x/crypto/ssh's (trusted)", "net.LookupIP of literal IP addresses needs no resolver"},
		Serial:      false,
		Run: func(c *core.Ctx) {
			Setup()
			c09Keys(c)
			c09CallbackHistories(c)
			if c.Shard == 0 {
				c09BigFile(c)
				c09Passwords(c)
				c09Handshakes(c)
			}
		},
	})
}
