package nharness

import (
	"context"
	"fmt"
	"os"
	"strings"
	"sync"
	"syscall"
	"time"

	"github.com/mimecast/dtail/internal/clients"
	chandlers "github.com/mimecast/dtail/internal/clients/handlers"
	"github.com/mimecast/dtail/internal/config"
	"github.com/mimecast/dtail/internal/mapr"
	"github.com/mimecast/dtail/verif/core"
	"golang.org/x/crypto/ssh"
)

// Free-running -race pass: the controlled scheduler's hand-offs are
// happens-before edges that blind the race detector, and the controlled checks
// assume that code between two synchronisation operations is atomic.  This
// pass runs concurrency-heavy bodies natively in a binary built with -race;
// the coordinator turns every "WARNING: DATA RACE" of a worker into a
// violation whose signature names the racing functions.

// raceClientColouring: several connections' client handlers print coloured
// records at the same time (C16, C07).
func raceClientColouring() {
	config.Client.TermColorsEnable = true
	var wg sync.WaitGroup
	for s := 0; s < 8; s++ {
		wg.Add(1)
		go func(s int) {
			defer wg.Done()
			h := chandlers.NewClientHandler(fmt.Sprintf("srv%d", s))
			for i := 0; i < 300; i++ {
				h.Write([]byte(fmt.Sprintf("REMOTE|srv%d|100|%d|f.log|line %d of server %d WARN x\n\xac", s, i, i, s)))
				h.Write([]byte(fmt.Sprintf("SERVER|srv%d|ERROR|boom %d\n\xacCLIENT|h|WARN|w\n\xac", s, i)))
			}
			h.Shutdown()
		}(s)
	}
	wg.Wait()
}

// raceSSHSessions: several real clients (dcat with two files, dgrep, dmap)
// against one real server at the same time.
func raceSSHSessions() {
	WriteAuthorizedKeys("alice", Keys[0].Line+"\n")
	ts := StartServer(10)
	defer ts.Stop()
	var files []string
	for f := 0; f < 3; f++ {
		var sb strings.Builder
		for l := 0; l < 200; l++ {
			fmt.Fprintf(&sb, "INFO|20211002-071209|1|f.go:1|8|10|0|0.1|1h|MAPREDUCE:T|k=%d|v=%d\n", l%3, l)
		}
		files = append(files, core.WriteScratch(fmt.Sprintf("race/f%d.log", f), sb.String()))
	}
	run := func(kind string) {
		args := config.Args{ConnectionsPerCPU: 10, SSHPort: config.DefaultSSHPort, Quiet: true, NoColor: false,
			ServersStr: ts.Addr, UserName: "alice", LogLevel: "error",
			SSHAuthMethods: []ssh.AuthMethod{ssh.PublicKeys(Keys[0].Signer)}}
		ctx, cancel := context.WithTimeout(context.Background(), 60*time.Second)
		defer cancel()
		stats := make(chan string)
		switch kind {
		case "cat", "catglob":
			args.What = files[0] + "," + files[1]
			if kind == "catglob" {
				// one glob command: one goroutine per match checks the session user's permissions
				args.What = strings.TrimSuffix(files[0], "f0.log") + "f*.log"
			}
			if cl, err := clients.NewCatClient(args); err == nil {
				cl.Start(ctx, stats)
			}
		case "grep":
			args.What = files[2]
			args.RegexStr = "k=1"
			if cl, err := clients.NewGrepClient(args); err == nil {
				cl.Start(ctx, stats)
			}
		case "map":
			args.What = files[0] + "," + files[2]
			args.QueryStr = "select k,count(k),sum(v) from T group by k interval 1"
			if cl, err := clients.NewMaprClient(args, clients.DefaultMode); err == nil {
				cl.Start(ctx, stats)
			}
		}
	}
	var wg sync.WaitGroup
	for _, k := range []string{"cat", "grep", "map", "cat", "catglob", "grep", "catglob"} {
		wg.Add(1)
		go func(k string) { defer wg.Done(); run(k) }(k)
	}
	wg.Wait()
}

// raceLongLines: plain dcat of a file whose lines are longer than the transport buffer, three at a time (the
// remainder / pooled-buffer paths of the server handler).
func raceLongLines() {
	WriteAuthorizedKeys("alice", Keys[0].Line+"\n")
	ts := StartServer(10)
	defer ts.Stop()
	var sb strings.Builder
	for i := 0; i < 40; i++ {
		sb.WriteString(strings.Repeat(string(rune('A'+i%26)), 40000+i) + "\n")
	}
	f := core.WriteScratch("race/long.log", sb.String())
	var wg sync.WaitGroup
	for i := 0; i < 3; i++ {
		wg.Add(1)
		go func() {
			defer wg.Done()
			args := config.Args{ConnectionsPerCPU: 10, SSHPort: config.DefaultSSHPort, Quiet: true, NoColor: true, Plain: true,
				ServersStr: ts.Addr, UserName: "alice", LogLevel: "error", What: f,
				SSHAuthMethods: []ssh.AuthMethod{ssh.PublicKeys(Keys[0].Signer)}}
			ctx, cancel := context.WithTimeout(context.Background(), 60*time.Second)
			defer cancel()
			if cl, err := clients.NewCatClient(args); err == nil {
				cl.Start(ctx, make(chan string))
			}
		}()
	}
	wg.Wait()
}

// raceColdParse: the first mapreduce queries of a process are parsed by several goroutines at once (dserver starts
// all continuous jobs together two seconds after start-up; several clients send map commands to a fresh server).
// Every result is also compared with the query's denotation.
func raceColdParse(c *core.Ctx) {
	const q = "select count($line),avg(x),last(host) from STATS where x > 1 and host eq \"a b\" group by host order by count($line) interval 3 limit 5 outfile \"o.csv\""
	var wg sync.WaitGroup
	start := make(chan struct{})
	bad := make(chan string, 64)
	for g := 0; g < 16; g++ {
		wg.Add(1)
		go func() {
			defer wg.Done()
			<-start
			p, err := mapr.NewQuery(q)
			if err != nil {
				bad <- "rejected: " + err.Error()
				return
			}
			if len(p.Select) != 3 || p.Table != "STATS" || len(p.Where) != 2 || len(p.GroupBy) != 1 || p.Limit != 5 || p.Outfile == nil || p.Interval != 3*time.Second {
				bad <- fmt.Sprintf("misparsed: %d select fields, table %q, %d conditions, %d group keys, limit %d, interval %v", len(p.Select), p.Table, len(p.Where), len(p.GroupBy), p.Limit, p.Interval)
			}
		}()
	}
	close(start)
	wg.Wait()
	close(bad)
	c.Count("cold-start-parse")
	for b := range bad {
		c.Violation("first-queries-of-a-process-parsed-concurrently-misread", "16 goroutines parse the same valid query as the first parses of the process: "+b, q)
		break
	}
}

func racePass(c *core.Ctx) {
	os.Setenv("VERIF_NATIVE_LOGGER", "stdout")
	Setup()
	// configuration is written once, before any server goroutine exists (writing it later would itself race with
	// readers that are still winding down)
	config.Server.MaxLineLength = 100000
	config.Server.MaxConcurrentCats = 2
	// the clients print to stdout: send file descriptor 1 to /dev/null while the bodies run (at the
	// descriptor level: assigning os.Stdout would itself race with goroutines that are printing)
	devnull, _ := os.OpenFile(os.DevNull, os.O_WRONLY, 0)
	saved, _ := syscall.Dup(1)
	syscall.Dup2(int(devnull.Fd()), 1)
	for i := 0; i < 3; i++ {
		raceClientColouring()
		c.Count(fmt.Sprintf("client-colouring-%d", i))
	}
	for i := 0; i < 2; i++ {
		raceSSHSessions()
		c.Count(fmt.Sprintf("ssh-sessions-%d", i))
	}
	raceLongLines()
	c.Count("long-lines")
	time.Sleep(1500 * time.Millisecond) // server-side goroutines of the last sessions end within a second
	syscall.Dup2(saved, 1)
	c.Sample("8 client handlers printing coloured REMOTE/SERVER/CLIENT records concurrently; 7 concurrent real sessions (3 dcat with two files, 2 dgrep, 1 dmap) against one real server")
}

func init() {
	core.Register(&core.Check{
		ID:          "C11R",
		ReportAs:    "C11",
		Level:       "exploration",
		Rule:        "free-running -race pass: the FIRST queries of a fresh process are parsed by 16 goroutines at once (as dserver's continuous jobs and concurrent map commands do); every data race in the parser packages is a violation, and every result must be the query's denotation",
		Assumptions: []string{"the race detector reports races on the executed paths only (happens-before based)"},
		Serial:      true,
		QuickBudget: 100 * time.Second,
		RaceFilter:  []string{"internal/mapr"},
		Run: func(c *core.Ctx) {
			Setup()
			raceColdParse(c)
		},
	})
	for _, p := range []string{"C16", "C07", "C02", "C06", "C13", "C08"} {
		core.Register(&core.Check{
			ID:       p + "R",
			ReportAs: p,
			Level:    "exploration",
			Rule: "free-running -race pass (supplements the controlled exploration, whose scheduler hand-offs hide unsynchronised accesses): 8 client handlers printing coloured records concurrently, and 7 concurrent real sessions " +
				"(dcat with two files, dgrep, dmap) against one real server, and 3 concurrent plain dcat of 40 lines longer than the transport buffer, in a binary built with the Go race detector; every reported data race is a violation",
			Assumptions: []string{"the race detector reports races on the executed paths only (happens-before based, independent of the actual interleaving)"},
			Serial:      true,
			QuickBudget: 200 * time.Second,
			RaceFilter: map[string][]string{"C16": {"internal/color", "internal/clients/handlers", "internal/io/dlog"},
				"C07": {"internal/clients/handlers", "internal/server/handlers.(*baseHandler)", "internal/io/dlog", "internal/io/line", "internal/io/pool", "internal/color"},
				"C02": {"internal/server/handlers", "internal/io/fs", "internal/io/pool", "internal/io/line", "internal/clients", "internal/regex", "internal/lcontext", "internal.(*Done)"},
				"C06": {"internal/mapr", "internal/clients/maprclient", "internal/clients/handlers.(*MaprHandler)", "internal/server/handlers.(*ServerHandler)"},
				"C08": {"internal/user", "internal/fs/permissions", "internal/io/fs/permissions"},
				"C13": {"internal/server/handlers.(*readCommand)", "internal/server.(*Server)", "internal/server.(*stats)", "internal/clients/connectors"}}[p],
			// the pinned tree's one benign race: FilePath() has a value receiver, so calling it copies the reader's
			// statistics fields while the filter goroutine updates them (the copy is never read)
			// (FilePath is inlined into its callers: the reading side shows as handleReadError / Start)
			RaceIgnore: []string{"fs.readFile.FilePath", "fs.(*readFile).handleReadError()&&fs.(*stats).update", "fs.readFile.Start()&&fs.(*stats).update"},
			Run:        racePass,
		})
	}
}
