// Package vsync replaces package sync in rewritten code.
package vsync

import "github.com/mimecast/dtail/verif/vrt"

type (
	Mutex     = vrt.Mutex
	RWMutex   = vrt.RWMutex
	WaitGroup = vrt.WaitGroup
	Once      = vrt.Once
	Pool      = vrt.Pool
	Map       = vrt.Map
	Cond      = vrt.Cond
	Locker    interface {
		Lock()
		Unlock()
	}
)

// NewCond is sync.NewCond.
func NewCond(l Locker) *Cond { return vrt.NewCond(l) }
