package harness

import (
	"bytes"
	"fmt"
	"math"
	"os"
	"reflect"
	"regexp"
	"sort"
	"strconv"
	"strings"
	"time"

	chandlers "github.com/mimecast/dtail/internal/clients/handlers"
	"github.com/mimecast/dtail/internal/config"
	"github.com/mimecast/dtail/internal/io/line"
	"github.com/mimecast/dtail/internal/mapr"
	maprserver "github.com/mimecast/dtail/internal/mapr/server"
	"github.com/mimecast/dtail/internal/omode"
	"github.com/mimecast/dtail/internal/source"
	"github.com/mimecast/dtail/verif/explore"
	"github.com/mimecast/dtail/verif/vcontext"
	"github.com/mimecast/dtail/verif/vrt"
)

// C05: distributed mapreduce result equals central evaluation of the query.

// a cell is (server, file, interval)
type c05Cell struct{ S, F, I int }

var c05Cells = []c05Cell{{0, 0, 0}, {0, 0, 1}, {0, 1, 0}, {1, 0, 0}}

type c05Query struct {
	Select  []string
	Where   string
	Group   string
	Order   string // "", "order by X", "rorder by X"
	OrderBy string
	Limit   int // -1 none
	Set     string
	Format  string // generickv | default | csv
}

func (q c05Query) text(outfile string, withLimit bool) string {
	s := "select " + strings.Join(q.Select, ",")
	if q.Format == "default" {
		s += " from T"
	}
	if q.Where != "" {
		s += " where " + q.Where
	}
	if q.Set != "" {
		s += " set " + q.Set
	}
	if q.Group != "" {
		s += " group by " + q.Group
	}
	if q.Order != "" {
		s += " " + q.Order
	}
	if withLimit && q.Limit >= 0 {
		s += fmt.Sprintf(" limit %d", q.Limit)
	}
	s += " outfile " + outfile
	s += " logformat " + q.Format
	return s
}

// c05Pipeline runs the real server aggregators (one per server), the real
// client mapr handlers and the real global group set over the given
// partition of lines, and returns the CSV rows of the final result.
func c05Pipeline(queryStr, outfile string, nServers int, part map[c05Cell][]string) (rows [][]string, header []string, err error) {
	query, qerr := mapr.NewQuery(queryStr)
	if qerr != nil {
		return nil, nil, qerr
	}
	global := mapr.NewGlobalGroupSet()
	for s := 0; s < nServers; s++ {
		host := fmt.Sprintf("srv%d", s)
		done := vrt.Make[[]string]("serverDone", 1)
		vrt.Go("server", func() {
			vrt.SetLabel("env:DTAIL_HOSTNAME_OVERRIDE", host)
			agg, aerr := maprserver.NewAggregate(queryStr)
			if aerr != nil {
				vrt.Failf("harness", "NewAggregate: %v", aerr)
				done.Send("done", nil)
				return
			}
			msgs := vrt.Make[string]("maprMessages", 4096)
			ctx, cancel := vcontext.WithCancel(vcontext.Background())
			fin := vrt.Make[struct{}]("aggDone", 0)
			vrt.Go("aggregate", func() { agg.Start(ctx, msgs); fin.Close("fin") })
			var chans []*vrt.Chan[*line.Line]
			nf := 0
			for c := range part {
				if c.S == s && c.F+1 > nf {
					nf = c.F + 1
				}
			}
			if nf == 0 {
				nf = 1
			}
			for f := 0; f < nf; f++ {
				ch := vrt.Make[*line.Line]("lines", 100)
				chans = append(chans, ch)
				agg.NextLinesCh.Send("next", ch)
			}
			for iv := 0; iv < 2; iv++ {
				any := false
				for f := 0; f < nf; f++ {
					for n, l := range part[c05Cell{s, f, iv}] {
						buf := newLineBuffer(l + "\n")
						chans[f].Send("line", line.New(buf, uint64(n+1), 100, fmt.Sprintf("f%d", f)))
						any = true
					}
				}
				if iv == 0 && any {
					// end of the first transmission interval, at a quiescent point
					vrt.Sleep("quiesce", 250*time.Millisecond)
					agg.Serialize(ctx)
					vrt.Sleep("quiesce", 250*time.Millisecond)
				}
			}
			for _, ch := range chans {
				ch.Close("eof")
			}
			fin.Recv("wait-agg")
			cancel()
			var out []string
			for msgs.Len("drain") > 0 {
				out = append(out, msgs.Recv("drain"))
			}
			done.Send("done", out)
		})
		messages := done.Recv("wait-server")
		// client side: what the server handler's Read and the client's MaprHandler do
		h := chandlers.NewMaprHandler(host, query, global)
		for _, m := range messages {
			h.Write([]byte("AGGREGATE|" + host + "|" + m + "\xac"))
		}
	}
	os.Remove(outfile)
	os.Remove(outfile + ".tmp")
	if werr := global.WriteResult(query, true); werr != nil {
		return nil, nil, werr
	}
	b, rerr := os.ReadFile(outfile)
	if rerr != nil {
		return nil, nil, rerr
	}
	ls := strings.Split(strings.TrimSuffix(string(b), "\n"), "\n")
	header = strings.Split(ls[0], ",")
	for _, l := range ls[1:] {
		rows = append(rows, strings.Split(l, ","))
	}
	return rows, header, nil
}

func newLineBuffer(s string) *bytes.Buffer { return bytes.NewBufferString(s) }

func floatEq(a, b string) bool {
	if a == b {
		return true
	}
	x, e1 := strconv.ParseFloat(a, 64)
	y, e2 := strconv.ParseFloat(b, 64)
	if e1 != nil || e2 != nil {
		return false
	}
	if x == y {
		return true
	}
	d := math.Abs(x - y)
	return d <= 1e-9*math.Max(math.Abs(x), math.Abs(y)) || d < 1e-6
}

func rowEq(a, b []string) bool {
	if len(a) != len(b) {
		return false
	}
	for i := range a {
		if !floatEq(a[i], b[i]) {
			return false
		}
	}
	return true
}

// subMultiset reports whether every row of p can be matched to a distinct row of r.
func subMultiset(p, r [][]string) bool {
	used := make([]bool, len(r))
	for _, x := range p {
		ok := false
		for j, y := range r {
			if !used[j] && rowEq(x, y) {
				used[j] = true
				ok = true
				break
			}
		}
		if !ok {
			return false
		}
	}
	return true
}

func c05Compare(q c05Query, header []string, central, part [][]string) string {
	col := -1
	for i, h := range header {
		if h == q.OrderBy {
			col = i
		}
	}
	monotone := func(rows [][]string) bool {
		if col < 0 {
			return true
		}
		for i := 1; i < len(rows); i++ {
			a, _ := strconv.ParseFloat(rows[i-1][col], 64)
			b, _ := strconv.ParseFloat(rows[i][col], 64)
			if strings.HasPrefix(q.Order, "rorder") {
				if a > b+1e-9 {
					return false
				}
			} else if a < b-1e-9 {
				return false
			}
		}
		return true
	}
	want := len(central)
	if q.Limit >= 0 && q.Limit < want {
		want = q.Limit
	}
	if len(part) != want {
		return fmt.Sprintf("%d result rows, want %d", len(part), want)
	}
	if !subMultiset(part, central) {
		return "a result row is not a row of the central evaluation"
	}
	if !monotone(part) {
		return "rows are not ordered by the order key"
	}
	if q.Limit >= 0 && col >= 0 && len(part) > 0 && len(central) > len(part) {
		// the rows kept must be the best ones: the worst kept key is not worse than the best dropped key
		keys := func(rows [][]string) []float64 {
			var k []float64
			for _, r := range rows {
				f, _ := strconv.ParseFloat(r[col], 64)
				k = append(k, f)
			}
			sort.Float64s(k)
			return k
		}
		ck, pk := keys(central), keys(part)
		if strings.HasPrefix(q.Order, "rorder") {
			for i := range pk {
				if math.Abs(pk[i]-ck[i]) > 1e-6 {
					return "limit did not keep the rows with the smallest order keys"
				}
			}
		} else {
			for i := range pk {
				if math.Abs(pk[len(pk)-1-i]-ck[len(ck)-1-i]) > 1e-6 {
					return "limit did not keep the rows with the largest order keys"
				}
			}
		}
	}
	return ""
}

type c05Case struct {
	Query  string              `json:"query"`
	Lines  []string            `json:"lines"`
	Assign []int               `json:"cell_of_line"`
	Cells  map[string][]string `json:"-"`
}

// c05Reference evaluates the query once over all lines, independently of the
// code under test (generickv format, queries without a set clause).  It
// returns the expected CSV rows (unordered) or ok=false if the query is out of
// the reference's scope.
func c05Reference(q c05Query, lines []string) (rows [][]string, ok bool) {
	if q.Format != "generickv" || q.Set != "" {
		return nil, false
	}
	// built-in variables other than $line ($hostname, $server, ...) depend on where a line was read, which a
	// central evaluation over the bare lines does not know
	for _, f := range append(append([]string{}, q.Select...), strings.Split(q.Group, ",")...) {
		if i := strings.Index(f, "("); i >= 0 {
			f = f[i+1 : len(f)-1]
		}
		if strings.HasPrefix(f, "$") && f != "$line" {
			return nil, false
		}
	}
	type agg struct {
		count   map[string]float64
		sum     map[string]float64
		min     map[string]float64
		max     map[string]float64
		has     map[string]bool
		last    map[string]string
		samples int
	}
	groups := map[string]*agg{}
	var order []string
	groupFields := []string{}
	if q.Group != "" {
		groupFields = strings.Split(q.Group, ",")
	} else {
		first := q.Select[0]
		if i := strings.Index(first, "("); i >= 0 {
			first = first[i+1 : len(first)-1]
		}
		groupFields = []string{first}
	}
	for _, l := range lines {
		fields := map[string]string{"$line": l}
		for _, kv := range strings.Split(l, "|") {
			if p := strings.SplitN(kv, "=", 2); len(p) == 2 {
				fields[p[0]] = p[1]
			}
		}
		switch q.Where {
		case "":
		case "v > 1":
			f, err := strconv.ParseFloat(fields["v"], 64)
			if _, has := fields["v"]; !has || err != nil || !(f > 1) {
				continue
			}
		case `k eq "a"`:
			if v, has := fields["k"]; !has || v != "a" {
				continue
			}
		default:
			// <field> eq|contains "<literal>" with the literal taken exactly as written between the quotes
			m := c05StringCond.FindStringSubmatch(q.Where)
			if m == nil {
				return nil, false
			}
			v, has := fields[m[1]]
			if !has || (m[2] == "eq" && v != m[3]) || (m[2] == "contains" && !strings.Contains(v, m[3])) {
				continue
			}
		}
		var kp []string
		for _, g := range groupFields {
			kp = append(kp, fields[g])
		}
		key := strings.Join(kp, ",")
		a := groups[key]
		if a == nil {
			a = &agg{count: map[string]float64{}, sum: map[string]float64{}, min: map[string]float64{}, max: map[string]float64{}, has: map[string]bool{}, last: map[string]string{}}
			groups[key] = a
			order = append(order, key)
		}
		added := false
		for _, sel := range q.Select {
			op, field := "last", sel
			if i := strings.Index(sel, "("); i >= 0 {
				op, field = sel[:i], sel[i+1:len(sel)-1]
			}
			val, has := fields[field]
			if !has {
				continue
			}
			switch op {
			case "count":
				a.count[sel]++
				a.has[sel] = true
				added = true
			case "last":
				a.last[sel] = val
				a.has[sel] = true
				added = true
			case "len":
				a.last[sel] = val
				a.sum[sel] = float64(len(val))
				a.has[sel] = true
				added = true
			default:
				f, err := strconv.ParseFloat(val, 64)
				if err != nil {
					continue
				}
				switch op {
				case "sum", "avg":
					a.sum[sel] += f
				case "min":
					if !a.has[sel] || f < a.min[sel] {
						a.min[sel] = f
					}
				case "max":
					if !a.has[sel] || f > a.max[sel] {
						a.max[sel] = f
					}
				}
				a.has[sel] = true
				added = true
			}
		}
		if added {
			a.samples++
		}
	}
	for _, key := range order {
		a := groups[key]
		if a.samples == 0 {
			continue // a group none of whose lines carries a selected field has no row (nothing to show)
		}
		var row []string
		for _, sel := range q.Select {
			op := "last"
			if i := strings.Index(sel, "("); i >= 0 {
				op = sel[:i]
			}
			switch op {
			case "count":
				row = append(row, fmt.Sprintf("%d", int(a.count[sel])))
			case "sum", "len":
				row = append(row, fmt.Sprintf("%f", a.sum[sel]))
			case "min":
				row = append(row, fmt.Sprintf("%f", a.min[sel]))
			case "max":
				row = append(row, fmt.Sprintf("%f", a.max[sel]))
			case "avg":
				row = append(row, fmt.Sprintf("%f", a.sum[sel]/float64(a.samples)))
			default:
				row = append(row, a.last[sel])
			}
		}
		rows = append(rows, row)
	}
	return rows, true
}

func c05WithHeader(m map[c05Cell][]string) {
	// every CSV file starts with its header line
	hdr := "k,v,c"
	seen := map[[2]int]bool{}
	for _, cell := range c05Cells {
		if len(m[cell]) == 0 || seen[[2]int{cell.S, cell.F}] {
			continue
		}
		first := cell
		if len(m[c05Cell{cell.S, cell.F, 0}]) > 0 {
			first = c05Cell{cell.S, cell.F, 0}
		}
		m[first] = append([]string{hdr}, m[first]...)
		seen[[2]int{cell.S, cell.F}] = true
	}
}

// c05Check runs the central evaluation once and the partitioned evaluation
// for every assignment of the lines to cells, and compares.
func c05Check(c *Ctx, q c05Query, lines []string, shard int) {
	outfile := fmt.Sprintf("%s/c05-%d.csv", Scratch(), shard)
	central := map[c05Cell][]string{{0, 0, 0}: lines}
	if q.Format == "csv" {
		c05WithHeader(central)
	}
	cRows, header, err1 := c05Pipeline(q.text(outfile, false), outfile, 1, central)
	if ref, ok := c05Reference(q, lines); ok && err1 == nil {
		// the central evaluation itself must be what the query denotes
		if len(ref) != len(cRows) || !subMultiset(cRows, ref) {
			c.Violation("central-evaluation-differs-from-the-query's-meaning", fmt.Sprintf("query %q over lines %q (one server, one file): result %v, the query denotes %v (header %v)",
				q.text("o.csv", false), lines, cRows, ref, header), c05Case{Query: q.text("o.csv", false), Lines: lines})
		}
	}
	total := 1
	for range lines {
		total *= len(c05Cells)
	}
	for a := 1; a < total; a++ {
		assign := make([]int, len(lines))
		x := a
		for i := range lines {
			assign[i] = x % len(c05Cells)
			x /= len(c05Cells)
		}
		part := map[c05Cell][]string{}
		nServers := 1
		for i, l := range lines {
			cell := c05Cells[assign[i]]
			part[cell] = append(part[cell], l)
			if cell.S+1 > nServers {
				nServers = cell.S + 1
			}
		}
		if q.Format == "csv" {
			c05WithHeader(part)
		}
		pRows, _, err2 := c05Pipeline(q.text(outfile, true), outfile, nServers, part)
		key := ""
		if len(cRows) > 0 {
			key = fmt.Sprintf("%v|%v|%v", q, lines, assign)
		}
		c.Count(key)
		if err1 != nil || err2 != nil {
			if (err1 == nil) != (err2 == nil) {
				c.Violation("error-only-in-one-evaluation", fmt.Sprintf("query %q lines %q: central err %v, partitioned err %v", q.text("o.csv", true), lines, err1, err2), c05Case{Query: q.text("o.csv", true), Lines: lines, Assign: assign})
			}
			continue
		}
		if d := c05Compare(q, header, cRows, pRows); d != "" {
			sig := "distributed-result-differs"
			if q.Format == "csv" && len(part[c05Cell{0, 1, 0}]) > 0 && (len(part[c05Cell{0, 0, 0}]) > 0 || len(part[c05Cell{0, 0, 1}]) > 0) {
				// one server reads two CSV files: the aggregator has one parser, so the
				// second file's header line is taken for a data row
				sig = "csv-header-of-second-file-on-a-server-counted-as-data"
			}
			var cells []string
			for i, l := range lines {
				cl := c05Cells[assign[i]]
				cells = append(cells, fmt.Sprintf("%q@server%d/file%d/interval%d", l, cl.S, cl.F, cl.I))
			}
			c.Violation(sig, fmt.Sprintf("query %q over lines %v: %s; distributed result %v, central result %v (header %v)",
				q.text("o.csv", true), cells, d, pRows, cRows, header), c05Case{Query: q.text("o.csv", true), Lines: lines, Assign: assign})
		}
	}
}

var c05Shapes = map[string][]string{
	"generickv": {"k=a|v=1|c=A", "k=a|v=2.5|c=A", "k=b|v=-3|c=B", "k=a|c=A", "k=a|v=x|c=A", "k=b|w=7", "k=a|v=0|c=A", "k=b|v=-1|c=B", "k=a|v=-1|c=A",
		// the same value in DIFFERENT group-by fields of lines that each lack the other one (group by k,c: two groups)
		"k=x|v=1", "c=x|v=5"},
	"default": {"INFO|20211002-071209|1|f.go:1|8|10|0|0.1|1h|MAPREDUCE:T|k=a|v=1|c=A", "INFO|20211002-071209|1|f.go:1|8|10|0|0.1|1h|MAPREDUCE:T|k=a|v=2.5|c=A",
		"INFO|20211002-071209|1|f.go:1|8|10|0|0.1|1h|MAPREDUCE:T|k=b|v=-3|c=B", "INFO|20211002-071209|1|f.go:1|8|10|0|0.1|1h|MAPREDUCE:T|k=a|c=A",
		"WARN|20211002-071209|1|f.go:1|8|10|0|0.1|1h|MAPREDUCE:T|k=a|v=100|c=A", "INFO|20211002-071209|1|f.go:1|8|10|0|0.1|1h|MAPREDUCE:U|k=b|v=9", "not a mapreduce line"},
	"csv": {"a,1,A", "a,2.5,A", "b,-3,B", "a,,A", "a,x,A", "b,0,B"},
}

func c05Queries(full bool) (out []c05Query) {
	sels := [][]string{
		{"count(k)"}, {"k", "count(k)"}, {"k", "sum(v)"}, {"k", "min(v)"}, {"k", "max(v)"}, {"k", "avg(v)"}, {"k", "last(c)"}, {"k", "len(c)"},
		{"k", "count(k)", "min(v)", "max(v)"}, {"count(k)", "sum(v)", "avg(v)"}, {"k", "min(v)", "last(c)"}, {"sum(v)", "max(v)"}, {"count($line)", "sum(v)"},
	}
	wheres := []string{"", "v > 1", `k eq "a"`}
	groups := []string{"k", ""}
	type ol struct {
		order string
		limit int
	}
	for _, sel := range sels {
		for _, wh := range wheres {
			for _, g := range groups {
				ols := []ol{{"", -1}}
				// order by the last selected aggregate
				lastAgg := sel[len(sel)-1]
				if strings.Contains(lastAgg, "(") && !strings.HasPrefix(lastAgg, "last") && !strings.HasPrefix(lastAgg, "len") {
					ols = append(ols, ol{"order by " + lastAgg, -1}, ol{"rorder by " + lastAgg, 1}, ol{"order by " + lastAgg, 1})
				}
				for _, o := range ols {
					for _, set := range []string{"", "$m = maskdigits(v)"} {
						if set != "" && !full {
							continue
						}
						q := c05Query{Select: sel, Where: wh, Group: g, Order: o.order, Limit: o.limit, Set: set}
						if o.order != "" {
							q.OrderBy = lastAgg
						}
						if g == "" && sel[0] == "k" {
							continue // grouping defaults to the first field anyway
						}
						out = append(out, q)
					}
				}
			}
		}
	}
	// grouping by two fields (lines may lack either)
	out = append(out, c05Query{Select: []string{"k", "c", "count(k)"}, Group: "k,c"},
		c05Query{Select: []string{"count($line)", "sum(v)"}, Group: "k,c"},
		c05Query{Select: []string{"count($line)", "sum(v)"}, Group: "c,k"})
	if full {
		out = append(out, c05Query{Select: []string{"$m", "count(k)"}, Set: "$m = maskdigits(v)", Group: "$m"},
			c05Query{Select: []string{"$hostname", "count(k)"}, Group: "$hostname"})
	}
	return
}

func c05Tables(shapes []string, n int, f func(lines []string)) {
	var rec func(cur []string)
	rec = func(cur []string) {
		if len(cur) > 0 {
			f(append([]string{}, cur...))
		}
		if len(cur) == n {
			return
		}
		for _, s := range shapes {
			rec(append(cur, s))
		}
	}
	rec(nil)
}

// c05Reporting: the client's periodic reporter may still be producing an interim result when the last connection
// ends and the final result is taken; under ALL schedules within two deviations the final result must be the
// central evaluation of everything the servers sent (every partial result counted exactly once).
func c05Reporting(c *Ctx) {
	for _, variant := range []string{"final-during-interim", "message-during-interim-then-final", "two-servers-and-interim", "outfile:interim-report-then-final-without-new-data"} {
		variant := variant
		sc := &explore.Scenario{Name: "client-reporting", Params: variant, Agg: "client-reporting", MaxSteps: 300000, Horizon: 10 * time.Minute}
		sc.Run = func(cfg vrt.Config) (string, string, vrt.Result) {
			var viol string
			res := vrt.Run(cfg, func() {
				args := DefaultArgs()
				args.Logger = "none"
				args.LogLevel = "error"
				StartEnv(source.Client, &args, nil)
				config.Client.TermColorsEnable = false
				q, err := mapr.NewQuery("select count(x),sum(y) group by k")
				if err != nil {
					panic(err)
				}
				g := mapr.NewGlobalGroupSet()
				msg := []byte("AGGREGATE|h|k∥1∥count(x)≔1∥sum(y)≔2∥\xac")
				h0 := chandlers.NewMaprHandler("srv0", q, g)
				h1 := chandlers.NewMaprHandler("srv1", q, g)
				done := vrt.Make[struct{}]("joined", 4)
				total := 0
				final := ""
				switch variant {
				case "outfile:interim-report-then-final-without-new-data":
					// the periodic reporter fires once more after the last partial result arrived; then the run ends
					out := Scratch() + "/c05-reporting.csv"
					os.Remove(out)
					os.Remove(out + ".tmp")
					qo, err := mapr.NewQuery("select count(x),sum(y) group by k outfile " + out)
					if err != nil {
						panic(err)
					}
					ho := chandlers.NewMaprHandler("srv0", qo, g)
					ho.Write(msg)
					ho.Write(msg)
					total = 2
					if err := g.WriteResult(qo, false); err != nil {
						viol = "interim report: " + err.Error()
						return
					}
					if err := g.WriteResult(qo, true); err != nil {
						viol = "final report: " + err.Error()
						return
					}
					b, err := os.ReadFile(out)
					if err != nil || strings.TrimSpace(string(b)) != "count(x),sum(y)\n2,4.000000" {
						viol = fmt.Sprintf("%s: after an interim and the final report the outfile holds %q (exists: %v), want the final result \"count(x),sum(y)\\n2,4.000000\"", variant, string(b), err == nil)
					}
					return
				case "final-during-interim":
					h0.Write(msg)
					h1.Write(msg)
					total = 2
					vrt.Go("periodic-reporter", func() { g.Result(q, 10); done.Send("j", struct{}{}) })
					final, _, _ = g.Result(q, 10)
					done.Recv("join")
				case "message-during-interim-then-final":
					h0.Write(msg)
					total = 3
					vrt.Go("periodic-reporter", func() { g.Result(q, 10); done.Send("j", struct{}{}) })
					vrt.Go("server-bytes", func() { h1.Write(msg); h1.Write(msg); done.Send("j", struct{}{}) })
					done.Recv("join")
					done.Recv("join")
					final, _, _ = g.Result(q, 10)
				case "two-servers-and-interim":
					total = 4
					vrt.Go("periodic-reporter", func() { g.Result(q, 10); done.Send("j", struct{}{}) })
					vrt.Go("server-bytes-0", func() { h0.Write(msg); h0.Write(msg); done.Send("j", struct{}{}) })
					vrt.Go("server-bytes-1", func() { h1.Write(msg); h1.Write(msg); done.Send("j", struct{}{}) })
					for i := 0; i < 3; i++ {
						done.Recv("join")
					}
					final, _, _ = g.Result(q, 10)
				}
				rows := strings.Split(strings.TrimSpace(final), "\n")
				cells := strings.Split(rows[len(rows)-1], "|")
				if len(cells) != 2 || strings.TrimSpace(cells[0]) != fmt.Sprint(total) || strings.TrimSpace(cells[1]) != fmt.Sprintf("%f", float64(2*total)) {
					viol = fmt.Sprintf("%s: the servers sent %d partial results (count 1, sum 2 each, one group); the final result is %q, the central evaluation is count %d, sum %d", variant, total, final, total, 2*total)
				}
			})
			if res.Fail != nil {
				return "fail:" + res.Fail.Kind, res.Fail.Error(), res
			}
			if viol != "" {
				return "wrong", viol, res
			}
			return "ok", "", res
		}
		c.Explore(sc, 2, func(msg string, v *explore.Violation) string {
			switch {
			case strings.HasPrefix(msg, "panic"):
				return "panic"
			case strings.HasPrefix(msg, "deadlock"):
				return "deadlock"
			}
			return "final-result-wrong-when-reports-and-messages-overlap"
		})
	}
}

// c05Serialize calls GroupSet.Serialize through reflection, passing each parameter by its type (context, channel,
// query): a change that adds a parameter to this internal function must not stop the checker from building.
func c05Serialize(g *mapr.GroupSet, q *mapr.Query, ch *vrt.Chan[string]) {
	m := reflect.ValueOf(g).MethodByName("Serialize")
	if !m.IsValid() {
		vrt.Failf("harness", "GroupSet.Serialize not found")
		return
	}
	var args []reflect.Value
	for i := 0; i < m.Type().NumIn(); i++ {
		t := m.Type().In(i)
		switch {
		case t == reflect.TypeOf(q):
			args = append(args, reflect.ValueOf(q))
		case t == reflect.TypeOf(ch):
			args = append(args, reflect.ValueOf(ch))
		case reflect.TypeOf(vcontext.Background()).Implements(t) && t.Kind() == reflect.Interface:
			args = append(args, reflect.ValueOf(vcontext.Background()))
		default:
			args = append(args, reflect.Zero(t))
		}
	}
	m.Call(args)
}

// c05LargeValues: partial results whose numbers are large, tiny, negative or fractional travel through the real
// serialisation (server side), the wire framing and the client's merge; the final result must be the one a central
// evaluation prints (the same aggregate set merged directly, without serialisation).
func c05LargeValues(c *Ctx) {
	values := []float64{0, 1, 999999, 1000000, 1234567, 1e7 + 1, 123456789012, 1e15, 1e21, 0.5, 1e-7, 2.5e-5, -1, -1000000, -2.5e6, 1e6 + 0.25}
	res := vrt.Run(vrt.Config{MaxSteps: 1 << 40, Horizon: 1000 * time.Hour}, func() {
		args := DefaultArgs()
		args.Logger = "none"
		args.LogLevel = "error"
		StartEnv(source.Client, &args, nil)
		config.Client.TermColorsEnable = false
		q, err := mapr.NewQuery("select count(x),sum(y),min(y),max(y),avg(y),k group by k")
		if err != nil {
			panic(err)
		}
		for _, v := range values {
			for _, parts := range []int{1, 2} {
				mk := func() *mapr.GroupSet {
					g := mapr.NewGroupSet()
					s := g.GetSet("key")
					s.Samples = 3
					s.FValues["count(x)"] = v
					s.FValues["sum(y)"] = v
					s.FValues["min(y)"] = v
					s.FValues["max(y)"] = v
					s.FValues["avg(y)"] = v
					s.SValues["k"] = "key"
					return g
				}
				// central: the partial results merged directly
				central := mapr.NewGlobalGroupSet()
				for i := 0; i < parts; i++ {
					if err := central.Merge(q, mk()); err != nil {
						panic(err)
					}
				}
				want, _, _ := central.Result(q, 10)
				// distributed: serialised by the server code, framed, merged by the client handler
				global := mapr.NewGlobalGroupSet()
				h := chandlers.NewMaprHandler("srv0", q, global)
				for i := 0; i < parts; i++ {
					ch := vrt.Make[string]("maprMessages", 100)
					c05Serialize(mk(), q, ch)
					for ch.Len("drain") > 0 {
						h.Write([]byte("AGGREGATE|host0|" + ch.Recv("drain") + "\xac"))
					}
				}
				got, _, _ := global.Result(q, 10)
				c.Count(fmt.Sprintf("large|%v|%d", v, parts))
				if got != want {
					c.Violation("large-or-fractional-value-lost-in-transmission", fmt.Sprintf("a partial result with count/sum/min/max/avg = %v sent in %d part(s): the client's final result is %q, the central evaluation (same sets merged directly) is %q", v, parts, got, want), map[string]interface{}{"value": v, "parts": parts})
				}
				vrt.Forget()
			}
		}
	})
	if res.Fail != nil {
		c.Violation("large-value-crash", res.Fail.Error(), nil)
	}
}

var c05StringCond = regexp.MustCompile(`^(\w+) (eq|contains) "([^"]*)"$`)

// c05Literals: quoted string literals whose white space matters (two or three blanks, a tab): the
// query must mean the same on the client, on the wire and on every server.
func c05Literals(c *Ctx) {
	shapes := []string{"k=a|v=1|c=A  B", "k=a|v=2|c=A B", "k=b|v=4|c=A\tB", "k=b|v=8|c=A   B"}
	var queries []c05Query
	for _, lit := range []string{"A  B", "A B", "A\tB", "A   B", "  "} {
		queries = append(queries,
			c05Query{Select: []string{"k", "count(k)", "sum(v)"}, Where: fmt.Sprintf("c eq %q", lit), Group: "k", Format: "generickv"},
			c05Query{Select: []string{"count(k)", "sum(v)"}, Where: fmt.Sprintf("c contains %q", lit), Group: "", Format: "generickv"})
	}
	c05Tables(shapes, 2, func(lines []string) {
		for _, q := range queries {
			if !c.Mine() || c.Expired() {
				continue
			}
			c05Check(c, q, lines, c.Shard)
			vrt.Forget()
		}
	})
}

// c05LiteralsE2E: the same literals through a complete dmap session (client, wire encoding of the query, server
// handler, map command, reads, aggregation, outfile) against the independent reference.
func c05LiteralsE2E(c *Ctx) {
	lines := []string{"k=a|v=1|c=A  B", "k=a|v=2|c=A B", "k=b|v=4|c=A\tB", "k=b|v=8|c=A   B"}
	path := WriteScratch(fmt.Sprintf("c05/literals-%d.log", c.Shard), strings.Join(lines, "\n")+"\n")
	for i, lit := range []string{"A  B", "A B", "A\tB", "A   B"} {
		q := c05Query{Select: []string{"k", "count(k)", "sum(v)"}, Where: fmt.Sprintf("c eq %q", lit), Group: "k", Format: "generickv"}
		want, ok := c05Reference(q, lines)
		if !ok {
			continue
		}
		outfile := fmt.Sprintf("%s/c05-lit-%d-%d.csv", Scratch(), c.Shard, i)
		var got ClientResult
		res := vrt.Run(vrt.Config{MaxSteps: 5000000, Horizon: 10 * time.Minute}, func() {
			os.Remove(outfile)
			args := DefaultArgs()
			args.Mode = omode.MapClient
			args.NoColor = true
			args.Quiet = true
			args.LogLevel = "error"
			args.What = path
			args.QueryStr = fmt.Sprintf("select k,count(k),sum(v) where c eq %q group by k outfile %s logformat generickv", lit, outfile)
			got = RunClientBody(ClientOpts{Kind: "map", Args: args})
		})
		c.Count("literal-e2e|" + lit)
		b, _ := os.ReadFile(outfile)
		var rows [][]string
		for j, l := range strings.Split(strings.TrimSpace(string(b)), "\n") {
			if j > 0 && l != "" {
				rows = append(rows, strings.Split(l, ","))
			}
		}
		sort.Slice(rows, func(a, b int) bool { return strings.Join(rows[a], ",") < strings.Join(rows[b], ",") })
		sort.Slice(want, func(a, b int) bool { return strings.Join(want[a], ",") < strings.Join(want[b], ",") })
		if res.Fail != nil || got.Status != 0 || fmt.Sprint(rows) != fmt.Sprint(want) {
			c.Violation("quoted-literal-means-something-else-on-the-server", fmt.Sprintf("dmap 'select k,count(k),sum(v) where c eq %q group by k' over lines %q: result %v, the query denotes %v (status %d %v)", lit, lines, rows, want, got.Status, res.Fail), map[string]string{"literal": lit})
		}
	}
}

// c05TablesE2E: a log that holds several mapreduce tables whose names are prefixes, suffixes and infixes of each other
// (STATS, STATS2, S, XSTATS, TATS) next to plain lines, split over two files; a complete dmap session per table: the
// result is the evaluation over exactly the lines of the table the query names.
func c05TablesE2E(c *Ctx) {
	if c.Shard != 0 {
		return
	}
	tables := []string{"STATS", "STATS2", "S", "XSTATS", "TATS", "STATS_OLD"}
	var files [2]strings.Builder
	want := map[string]map[string][2]float64{}
	n := 0
	for ti, t := range tables {
		want[t] = map[string][2]float64{}
		for i := 0; i <= ti; i++ {
			for _, k := range []string{"a", "b"} {
				n++
				v := float64(100*(ti+1) + i)
				fmt.Fprintf(&files[n%2], "INFO|20211002-071209|1|f.go:1|8|10|0|0.1|1h|MAPREDUCE:%s|k=%s|v=%v\n", t, k, v)
				e := want[t][k]
				want[t][k] = [2]float64{e[0] + 1, e[1] + v}
			}
		}
		fmt.Fprintf(&files[ti%2], "a plain line that mentions MAPREDUCE:%s in its text\n", t)
	}
	p0 := WriteScratch("c05/tables-0.log", files[0].String())
	p1 := WriteScratch("c05/tables-1.log", files[1].String())
	for ti, t := range tables {
		outfile := fmt.Sprintf("%s/c05-tables-%d.csv", Scratch(), ti)
		var got ClientResult
		res := vrt.Run(vrt.Config{MaxSteps: 5000000, Horizon: 10 * time.Minute}, func() {
			os.Remove(outfile)
			args := DefaultArgs()
			args.Mode = omode.MapClient
			args.NoColor = true
			args.Quiet = true
			args.LogLevel = "error"
			args.What = p0 + "," + p1
			args.QueryStr = fmt.Sprintf("select k,count(k),sum(v) from %s group by k outfile %s", t, outfile)
			got = RunClientBody(ClientOpts{Kind: "map", Args: args})
		})
		c.Count("tables-e2e|" + t)
		b, _ := os.ReadFile(outfile)
		rows := map[string][2]float64{}
		for j, l := range strings.Split(strings.TrimSpace(string(b)), "\n") {
			if f := strings.Split(l, ","); j > 0 && len(f) == 3 {
				var cnt, sum float64
				fmt.Sscanf(f[1], "%g", &cnt)
				fmt.Sscanf(f[2], "%g", &sum)
				rows[f[0]] = [2]float64{cnt, sum}
			}
		}
		if res.Fail != nil || got.Status != 0 || fmt.Sprint(rows) != fmt.Sprint(want[t]) {
			c.Violation("lines-of-another-table-in-the-result", fmt.Sprintf("dmap 'select k,count(k),sum(v) from %s group by k' over two files holding the tables %v: result (key: count, sum) %v, the lines of table %s give %v (status %d %v)",
				t, tables, rows, t, want[t], got.Status, res.Fail), map[string]string{"table": t})
		}
	}
}

func c05Run(c *Ctx) {
	c05Literals(c)
	full := c.Thorough()
	n := 2
	if full {
		n = 3
	}
	queries := c05Queries(full)
	for _, format := range []string{"generickv", "default", "csv"} {
		c05Tables(c05Shapes[format], n, func(lines []string) {
			if format != "generickv" && len(lines) > 2 {
				return
			}
			for qi, q := range queries {
				if format != "generickv" && !full && qi%3 != len(lines[0])%3 {
					continue // quick: the other formats share the aggregation code; a third of the queries per table
				}
				if !c.Mine() {
					continue
				}
				if c.Expired() {
					return
				}
				q.Format = format
				if format == "default" && strings.Contains(strings.Join(q.Select, ","), "$line") {
					continue
				}
				c05Check(c, q, lines, c.Shard)
				vrt.Forget()
				if len(lines) == 2 && qi == 5 && format == "generickv" {
					c.Sample(map[string]interface{}{"lines": lines, "cells(server,file,interval)": c05Cells, "query": q.text("o.csv", true), "partitions": "all 15 assignments of the 2 lines to the 4 cells"})
				}
			}
		})
	}
}

func init() {
	Register(&Check{
		ID:    "C05",
		Level: "exploration",
		Rule: "tables of <=2 (quick) / <=3 (thorough, generickv) log lines over 6-11 line shapes per format (generickv, default, csv; lines lacking a selected field, non-numeric values, negative values, other tables), every assignment of the lines " +
			"to cells {server0/file0/interval0, server0/file0/interval1, server0/file1, server1/file0}, x ~150 queries (select lists over count/sum/min/max/avg/len/last, where none/float/string, group by k/default, order/rorder/limit, set); " +
			"each runs the real server Aggregate per server (lines fed per file, Serialize at the interval boundary), the real client MaprHandler/client.Aggregate and GlobalGroupSet.WriteResult; differential oracle: CSV result of the partitioned run == " +
			"CSV result of the same code with the trivial partition (float tolerance 1e-9, ties in any order, limit keeps the best rows); last/len only on group-constant fields so that no choice is involved; plus complete dmap sessions over two files that hold six tables whose names are prefixes, suffixes and infixes of each other (STATS, STATS2, S, XSTATS, TATS, STATS_OLD) and plain lines mentioning them: 'from T' yields exactly the evaluation over the lines of table T; non-trivial = non-trivial partition and non-empty result",
		Assumptions: []string{"canonical schedule for the table x partition x query product (C06 explores schedules); interval boundaries are placed at quiescent points; the client's reporting path (interim report, final report, arriving partial results) is explored under all schedules within 2 deviations; partial results with 16 large/tiny/negative/fractional values go through the real serialisation and merge and are compared with the directly merged sets"},
		Run: func(c *Ctx) {
			c05Reporting(c)
			if c.Shard == 0 {
				c05LargeValues(c)
				c05LiteralsE2E(c)
				c05TablesE2E(c)
			}
			res := vrt.Run(vrt.Config{MaxSteps: 1 << 50, Horizon: 1 << 60}, func() {
				args := DefaultArgs()
				args.Logger = "none"
				args.LogLevel = "error"
				StartEnv(source.Client, &args, nil)
				c05Run(c)
			})
			if res.Fail != nil {
				c.Res.HarnessErr = res.Fail.Error()
			}
		},
		Replay: func(c *Ctx, rec *ViolationRec) string {
			return "re-run bin/check C05 quick (the failing query, lines and partition are in the message)"
		},
	})
}
