package harness

import (
	"fmt"
	"regexp"
	"strings"
	"time"

	"github.com/mimecast/dtail/internal/io/fs"
	"github.com/mimecast/dtail/internal/io/line"
	"github.com/mimecast/dtail/internal/lcontext"
	"github.com/mimecast/dtail/internal/regex"
	"github.com/mimecast/dtail/internal/source"
	"github.com/mimecast/dtail/verif/vcontext"
	"github.com/mimecast/dtail/verif/vrt"
)

// C03: dgrep selects exactly the lines grep semantics prescribe.

type c03Case struct {
	Word    string `json:"file_as_match_word"`
	Pattern string `json:"pattern"`
	Invert  bool   `json:"invert"`
	Before  int    `json:"before"`
	After   int    `json:"after"`
	Max     int    `json:"max"`
}

// c03Reference is the grep-context selector of the property statement.
func c03Reference(sel []bool, before, after, max int) []int {
	n := len(sel)
	var chosen []int
	stop := n
	for i, s := range sel {
		if !s {
			continue
		}
		if max > 0 && len(chosen) == max {
			stop = i
			break
		}
		chosen = append(chosen, i)
	}
	out := make([]bool, n)
	for _, i := range chosen {
		for j := i - before; j <= i+after; j++ {
			if j >= 0 && j < stop {
				out[j] = true
			}
		}
	}
	var idx []int
	for i, o := range out {
		if o {
			idx = append(idx, i)
		}
	}
	return idx
}

func c03Lines(word string) []string {
	var ls []string
	for i, c := range word {
		if c == 'M' {
			ls = append(ls, fmt.Sprintf("x%d M y", i))
		} else if c == 'R' {
			ls = append(ls, fmt.Sprintf("x%d M y\r", i)) // a line of a CRLF file: the CR is content
		} else if c == 'E' {
			ls = append(ls, "") // an empty line
		} else if c == 'C' {
			ls = append(ls, "\r") // an empty line of a CRLF file
		} else {
			ls = append(ls, fmt.Sprintf("x%d UMy", i)) // an 'M' without blanks around it
		}
	}
	return ls
}

// c03Run runs the real reader on one case inside a controlled execution.
func c03Run(path string, cs c03Case) ([]string, error) {
	flag := regex.Default
	if cs.Invert {
		flag = regex.Invert
	}
	r0, err := regex.New(cs.Pattern, flag)
	if err != nil {
		return nil, err
	}
	ser, err := r0.Serialize()
	if err != nil {
		return nil, err
	}
	re, err := regex.Deserialize(ser) // what the server does with the wire form
	if err != nil {
		return nil, err
	}
	lines := vrt.Make[*line.Line]("lines", 100)
	msgs := vrt.Make[string]("serverMessages", 10)
	ctx, cancel := vcontext.WithCancel(vcontext.Background())
	defer cancel()
	ltx := lcontext.LContext{BeforeContext: cs.Before, AfterContext: cs.After, MaxCount: cs.Max}
	var got []string
	if len(cs.Word) < 100 {
		// everything fits into the queue: receive after the reader has returned
		if err := fs.NewCatFile(path, "f", msgs).Start(ctx, ltx, lines, re); err != nil {
			return nil, err
		}
		for lines.Len("drain") > 0 {
			l := lines.Recv("drain")
			got = append(got, l.Content.String())
		}
		return got, nil
	}
	// long files: a consumer receives while the reader works
	stop := vrt.Make[struct{}]("stopConsumer", 0)
	drained := vrt.Make[struct{}]("consumerDone", 0)
	vrt.Go("consumer", func() {
		defer drained.Close("consumerDone")
		for {
			cl, cs := lines.RecvCase(), stop.RecvCase()
			if vrt.Select("consumer", false, cl, cs) == 1 {
				break
			}
			got = append(got, cl.V.Content.String())
		}
		for lines.Len("drain") > 0 {
			got = append(got, lines.Recv("drain").Content.String())
		}
	})
	err = fs.NewCatFile(path, "f", msgs).Start(ctx, ltx, lines, re)
	stop.Close("stop")
	drained.Recv("wait-consumer")
	if err != nil {
		return nil, err
	}
	return got, nil
}

func c03Check(c *Ctx, path string, cs c03Case) {
	lines := c03Lines(cs.Word)
	sel := make([]bool, len(lines))
	noop := cs.Pattern == "" || cs.Pattern == "." || cs.Pattern == ".*"
	direct := regexp.MustCompile(cs.Pattern) // the user's pattern applied directly (package regexp is trusted)
	for i := range lines {
		m := direct.MatchString(lines[i])
		if cs.Invert {
			m = !m
		}
		if noop {
			m = true
		}
		sel[i] = m
	}
	want := c03Reference(sel, cs.Before, cs.After, cs.Max)
	got, err := c03Run(path, cs)
	key := ""
	if len(want) > 0 && len(want) < len(lines) {
		key = fmt.Sprintf("%v", cs)
	}
	c.Count(key)
	var wantS []string
	for _, i := range want {
		wantS = append(wantS, lines[i]+"\n")
	}
	if err != nil || strings.Join(got, "") != strings.Join(wantS, "") || len(got) != len(wantS) {
		sig := "wrong-selection"
		if len(lines) > 30 {
			c.Violation(sig, fmt.Sprintf("file of %d lines (word %s: M = matching line, U = other), pattern %q invert=%v before=%d after=%d max=%d: got %d lines, want %d (err %v)",
				len(lines), c03Compress(cs.Word), cs.Pattern, cs.Invert, cs.Before, cs.After, cs.Max, len(got), len(wantS), err), c03Case{Word: c03Compress(cs.Word), Pattern: cs.Pattern, Invert: cs.Invert, Before: cs.Before, After: cs.After, Max: cs.Max})
			return
		}
		c.Violation(sig, fmt.Sprintf("file lines %q, pattern %q invert=%v before=%d after=%d max=%d: got %q, want %q (err %v)",
			lines, cs.Pattern, cs.Invert, cs.Before, cs.After, cs.Max, got, wantS, err), cs)
	}
}

func c03Words(n int) []string {
	var out []string
	for l := 0; l <= n; l++ {
		for m := 0; m < 1<<l; m++ {
			b := make([]byte, l)
			for i := 0; i < l; i++ {
				if m&(1<<i) != 0 {
					b[i] = 'M'
				} else {
					b[i] = 'U'
				}
			}
			out = append(out, string(b))
		}
	}
	return out
}

func c03RunWord(c *Ctx, word string, full bool) {
	var sb strings.Builder
	for _, l := range c03Lines(word) {
		sb.WriteString(l + "\n")
	}
	path := WriteScratch("c03/w"+word+".txt", sb.String())
	vals := []int{0, 1, 2, 3, 9}
	res := vrt.Run(vrt.Config{MaxSteps: 5000000, Horizon: 100 * time.Hour}, func() {
		args := DefaultArgs()
		args.Logger = "none"
		args.LogLevel = "error"
		StartEnv(source.Server, &args, nil)
		for _, b := range vals {
			for _, a := range vals {
				for _, m := range vals {
					for _, inv := range []bool{false, true} {
						c03Check(c, path, c03Case{Word: word, Pattern: " M ", Invert: inv, Before: b, After: a, Max: m})
					}
				}
			}
		}
		if full {
			for _, pat := range []string{"^.* M y$", "[M] ", "", ".", ".*", "M", "M ", " M", "M y", "My", "\\sM\\s", "^x1 M y$", "^x0 UMy$", `\Ax2 M y\z`, "^M$", "^ M $", "x1", "^x1", "y$", "(?i)m Y", "M y|UMy"} {
				for _, inv := range []bool{false, true} {
					for _, ltx := range [][3]int{{0, 0, 0}, {1, 1, 0}, {0, 2, 1}, {2, 0, 2}, {9, 9, 9}, {1, 1, 1}} {
						c03Check(c, path, c03Case{Word: word, Pattern: pat, Invert: inv, Before: ltx[0], After: ltx[1], Max: ltx[2]})
					}
				}
			}
		}
	})
	if res.Fail != nil {
		c.Violation("reader-failure-"+res.Fail.Kind, fmt.Sprintf("word %q: %v", word, res.Fail), map[string]string{"word": word})
	}
}

// c03RunLong: files longer than the reader's internal queues (100 raw lines, 100 delivered lines) with context
// sizes below, at and above those capacities.
func c03RunLong(c *Ctx, word string) {
	var sb strings.Builder
	for _, l := range c03Lines(word) {
		sb.WriteString(l + "\n")
	}
	path := WriteScratch(fmt.Sprintf("c03/long-%d-%d.txt", len(word), strings.Count(word, "M")), sb.String())
	res := vrt.Run(vrt.Config{MaxSteps: 50000000, Horizon: 100 * time.Hour}, func() {
		args := DefaultArgs()
		args.Logger = "none"
		args.LogLevel = "error"
		StartEnv(source.Server, &args, nil)
		for _, b := range []int{0, 99, 100, 101, 120, 250} {
			for _, a := range []int{0, 1, 100, 101, 130} {
				for _, m := range []int{0, 1, 2} {
					for _, inv := range []bool{false, true} {
						c03Check(c, path, c03Case{Word: word, Pattern: " M ", Invert: inv, Before: b, After: a, Max: m})
					}
				}
			}
		}
	})
	if res.Fail != nil {
		c.Violation("reader-failure-"+res.Fail.Kind, fmt.Sprintf("long word (%d lines): %v", len(word), res.Fail), map[string]string{"word": word})
	}
}

// c03Compress renders a long word run-length encoded (U150 M1).
func c03Compress(w string) string {
	var sb strings.Builder
	for i := 0; i < len(w); {
		j := i
		for j < len(w) && w[j] == w[i] {
			j++
		}
		fmt.Fprintf(&sb, "%c%d ", w[i], j-i)
		i = j
	}
	return strings.TrimSpace(sb.String())
}

// c03RunCR: lines ending in a carriage return (CRLF files) and empty lines, with patterns that look at the line end.
func c03RunCR(c *Ctx, word string) {
	var sb strings.Builder
	for _, l := range c03Lines(word) {
		sb.WriteString(l + "\n")
	}
	path := WriteScratch("c03/cr-"+word+".txt", sb.String())
	res := vrt.Run(vrt.Config{MaxSteps: 5000000, Horizon: 100 * time.Hour}, func() {
		args := DefaultArgs()
		args.Logger = "none"
		args.LogLevel = "error"
		StartEnv(source.Server, &args, nil)
		for _, pat := range []string{"y$", "^$", "\\r$", "\\r", "\\s$", "^.{6}$", "M y$", "[^y]$", "^\\r?$", ".+", "..*", ".?", "^.*$", "^", "$", "(.*)", ".{0,}", ". ", "\\."} {
			for _, inv := range []bool{false, true} {
				for _, ltx := range [][3]int{{0, 0, 0}, {1, 0, 0}, {0, 1, 1}, {1, 1, 2}} {
					c03Check(c, path, c03Case{Word: word, Pattern: pat, Invert: inv, Before: ltx[0], After: ltx[1], Max: ltx[2]})
				}
			}
		}
	})
	if res.Fail != nil {
		c.Violation("reader-failure-"+res.Fail.Kind, fmt.Sprintf("word %q: %v", word, res.Fail), map[string]string{"word": word})
	}
}

// c03CRWords: all words of length <= 4 over {M, R (CR-terminated), E (empty), C (CR only)} that contain a CR line.
func c03CRWords() (out []string) {
	var rec func(cur string)
	rec = func(cur string) {
		if strings.ContainsAny(cur, "RC") {
			out = append(out, cur)
		}
		if len(cur) == 4 {
			return
		}
		for _, l := range "MREC" {
			rec(cur + string(l))
		}
	}
	rec("")
	return
}

func c03LongWords() []string {
	u := func(n int) string { return strings.Repeat("U", n) }
	return []string{u(150) + "M", "M" + u(150), u(99) + "M" + u(120) + "M" + u(5), u(101) + "MM" + u(101) + "M", "M" + u(100) + "M" + u(100) + "M", u(260) + "M" + u(140)}
}

func init() {
	Register(&Check{
		ID:    "C03",
		Level: "exploration",
		Rule: "files are all words over {matching line, non-matching line} up to length 8 (quick) / 11 (thorough), plus all files of <=4 lines over {matching, CR-terminated, empty, CR-only} with 9 line-end-sensitive patterns and 10 near-match-all spellings (.+ ..* .? ^.*$ ^ $ (.*) .{0,} ...) that must NOT be treated as the three no-op spellings, plus 6 files of 150-400 lines (longer than the reader's internal queues of 100) with before in {0,99,100,101,120,250} x after in {0,1,100,101,130} x max in {0,1,2}; for each word the full product " +
			"before x after x max in {0,1,2,3,9}^3 x invert, plus 20 further patterns (anchored at one or both ends incl. whole-line literals, a class, flags, alternation, the no-op spellings '', '.', '.*', patterns with leading/trailing blanks) on 6 contexts; the real CatFile reader " +
			"(regex passed through Serialize/Deserialize as on the wire) runs under the controlled scheduler and is compared with the reference selector of the statement; " +
			"non-trivial = expected output is neither empty nor the whole file",
		Assumptions: []string{
			"the filter observes the regular expression only through Match per line (so a file is a word over {M,U}); package regexp is trusted",
			"canonical schedule only: reader and filter form a deterministic pipeline (output order does not depend on scheduling; C02 explores schedules)",
		},
		Run: func(c *Ctx) {
			n := 8
			if c.Thorough() {
				n = 11
			}
			for _, w := range c03LongWords() {
				if c.Mine() && !c.Expired() {
					c03RunLong(c, w)
				}
			}
			for _, w := range c03CRWords() {
				if c.Mine() && !c.Expired() {
					c03RunCR(c, w)
				}
			}
			for _, w := range c03Words(n) {
				if !c.Mine() {
					continue
				}
				if c.Expired() {
					return
				}
				c03RunWord(c, w, true)
				if len(w) == 4 {
					c.Sample(c03Case{Word: w, Pattern: "M ", Before: 1, After: 2, Max: 1})
				}
			}
		},
		Replay: func(c *Ctx, rec *ViolationRec) string {
			var cs c03Case
			if err := jsonUnmarshal(rec.Input, &cs); err != nil || cs.Word == "" {
				return "cannot decode input"
			}
			var sb strings.Builder
			for _, l := range c03Lines(cs.Word) {
				sb.WriteString(l + "\n")
			}
			path := WriteScratch("c03/w"+cs.Word+".txt", sb.String())
			vrt.Run(vrt.Config{}, func() {
				args := DefaultArgs()
				args.Logger = "none"
				StartEnv(source.Server, &args, nil)
				c03Check(c, path, cs)
			})
			if len(c.Res.Violations) > 0 {
				return c.Res.Violations[0].Msg
			}
			return ""
		},
	})
}
