package harness

import (
	"fmt"
	"os"
	"sort"
	"strings"
	"time"

	"github.com/mimecast/dtail/internal/config"
	"github.com/mimecast/dtail/internal/source"
	"github.com/mimecast/dtail/verif/explore"
	"github.com/mimecast/dtail/verif/vos"
	"github.com/mimecast/dtail/verif/vrt"
)

// C13: concurrent file reads never exceed the configured limits.

type c13Params struct {
	Mode     string // cat | tail
	Limit    int
	Sessions int
	Files    int // files per session (one glob command)
	Lines    int
	Cancel   []int // sessions that get a canceller
	Truncate bool  // tail: the file of session 0 is truncated while it is followed (the read is retried)
	// Faulty: sessions whose read fails after it took its slot (an empty .gz file); with ReadDelayMs every read(2)
	// of the other sessions' files takes that long, so that their reads are still running meanwhile
	Faulty      []int
	ReadDelayMs int
	D           int // deviation bound of this scenario (0 = tier default)
	// Stuck: files literally named '-', sessions whose client never reads its output (a stalled or vanished client): the session's queue of
	// 100 lines fills and its read blocks in a send; such a session is ended after two (virtual) seconds.  With
	// Mode "grepb" the command is a grep with 49 lines of before-context and a match on every 50th line.
	Stuck []int
}

func (p c13Params) String() string {
	s := fmt.Sprintf("mode=%s limit=%d sessions=%d files=%d lines=%d cancel=%v truncate=%v", p.Mode, p.Limit, p.Sessions, p.Files, p.Lines, p.Cancel, p.Truncate)
	if len(p.Faulty) > 0 {
		s += fmt.Sprintf(" failing-read-in-sessions=%v readdelay=%dms", p.Faulty, p.ReadDelayMs)
	}
	if len(p.Stuck) > 0 {
		s += fmt.Sprintf(" client-never-reads-in-sessions=%v (ended after 2 s)", p.Stuck)
	}
	return s
}

func c13Files(p c13Params) (dir string) {
	dir = fmt.Sprintf("c13/%s-%d-%d-%d", p.Mode, p.Sessions, p.Files, p.Lines)
	if len(p.Faulty) > 0 {
		dir += fmt.Sprintf("-faulty%v", p.Faulty)
		dir = strings.NewReplacer(" ", "_", "[", "", "]", "").Replace(dir)
	}
	faulty := map[int]bool{}
	for _, s := range p.Faulty {
		faulty[s] = true
	}
	for s := 0; s < p.Sessions; s++ {
		if faulty[s] {
			WriteScratch(fmt.Sprintf("%s/s%d/f0.log.gz", dir, s), "") // not a gzip stream: the read fails
			continue
		}
		for f := 0; f < p.Files; f++ {
			var sb strings.Builder
			for l := 1; l <= p.Lines; l++ {
				fmt.Fprintf(&sb, "s%df%dl%d\n", s, f, l)
			}
			if p.Mode == "catdash" {
				// files literally named "-" (the name the server uses internally for the stdin pipe)
				WriteScratch(fmt.Sprintf("%s/s%d/f%d/-", dir, s, f), sb.String())
				continue
			}
			WriteScratch(fmt.Sprintf("%s/s%d/f%d.log", dir, s, f), sb.String())
		}
	}
	return Scratch() + "/" + dir
}

func distinctOpen(prefix string) int {
	names := map[string]bool{}
	for f := range vos.S.Open {
		if strings.HasPrefix(f.Name(), prefix) {
			names[f.Name()] = true
		}
	}
	return len(names)
}

func c13Scenario(p c13Params) *explore.Scenario {
	dir := c13Files(p)
	sc := &explore.Scenario{Name: "c13", Params: p.String(), MaxSteps: 200000, Horizon: 10 * time.Minute}
	sc.Run = func(cfg vrt.Config) (string, string, vrt.Result) {
		var outcome, viol string
		maxOpen := 0
		cfg.Invariant = func() string {
			n := distinctOpen(dir)
			if n > maxOpen {
				maxOpen = n
			}
			if n > p.Limit {
				return fmt.Sprintf("%d distinct test files open at once, limit is %d", n, p.Limit)
			}
			return ""
		}
		if p.Truncate {
			c13Files(p) // restore the files a previous execution truncated
		}
		res := vrt.Run(cfg, func() {
			args := DefaultArgs()
			args.Logger = "none"
			args.LogLevel = "error"
			env := StartEnv(source.Server, &args, func() {
				config.Server.MaxConcurrentCats = p.Limit
				config.Server.MaxConcurrentTails = p.Limit
				if p.ReadDelayMs > 0 {
					vos.S.ReadDelay = time.Duration(p.ReadDelayMs) * time.Millisecond
					vos.S.ReadDelayPrefix = dir + "/"
				}
			})
			_ = env
			cat := vrt.Make[struct{}]("catLimiter", p.Limit)
			tail := vrt.Make[struct{}]("tailLimiter", p.Limit)
			lim := cat
			if p.Mode == "tail" {
				lim = tail
			}
			var ss []*Session
			faultyS := map[int]bool{}
			for _, f := range p.Faulty {
				faultyS[f] = true
			}
			cancelled := map[int]bool{}
			for _, c := range p.Cancel {
				cancelled[c] = true
			}
			stuck := map[int]bool{}
			for _, c := range p.Stuck {
				stuck[c] = true
				cancelled[c] = true // its output is not checked
			}
			for i := 0; i < p.Sessions; i++ {
				s := NewServerSession(fmt.Sprintf("s%d", i), "verifuser", cat, tail)
				ss = append(ss, s)
				if stuck[i] {
					// nobody reads; the session ends two seconds later, when its read sits in a send
					vrt.Go("vanished-client", func() {
						vrt.Sleep("stalled", 2*time.Second)
						s.H.Shutdown()
						s.Done.Close("ended")
					})
				} else {
					vrt.Go("pump", func() { s.Pump(32 * 1024) })
				}
				if p.Mode == "catdash" {
					for f := 0; f < p.Files; f++ {
						s.H.Write(WireCommand(fmt.Sprintf("cat %s/s%d/f%d/- regex:noop ", dir, i, f)))
					}
				} else if p.Mode == "grepb" {
					s.H.Write(WireCommand(fmt.Sprintf("grep:before=49 %s/s%d/*.log* regex:default l[0-9]*(50|00)$", dir, i)))
				} else if p.Mode == "map" {
					// a dmap session: the map command, then the read command feeding it
					s.H.Write(WireCommand("map select count($line) group by $hostname logformat generic"))
					s.H.Write(WireCommand(fmt.Sprintf("cat %s/s%d/*.log* regex:noop ", dir, i)))
				} else {
					s.H.Write(WireCommand(fmt.Sprintf("%s %s/s%d/*.log* regex:noop ", p.Mode, dir, i)))
				}
				if cancelled[i] && !stuck[i] {
					vrt.Go("cancel", func() {
						vrt.Yield("cancel")
						s.H.Shutdown()
					})
				}
			}
			if p.Mode == "tail" && p.Truncate {
				// the followed file of session 0 shrinks: its reader notices at the next 3 s check and the read is retried
				vrt.Sleep("before-truncate", time.Second)
				for f := 0; f < p.Files; f++ {
					os.Truncate(fmt.Sprintf("%s/s0/f%d.log", dir, f), 0)
				}
				vrt.Sleep("after-truncate", 12*time.Second)
			}
			if p.Mode == "tail" {
				// follows never end by themselves: let them run, then end every session
				vrt.Sleep("settle", 2*time.Second)
				for _, s := range ss {
					s.H.Shutdown()
				}
			}
			for _, s := range ss {
				s.Done.Recv("wait")
			}
			// every per-file goroutine has returned once the sessions are over and the
			// remaining goroutines have drained; give them virtual time to do so
			vrt.Sleep("drain", 10*time.Second)
			var parts []string
			for i, s := range ss {
				got := map[string]int{}
				for _, m := range s.Lines() {
					f := strings.SplitN(m, "|", 6)
					if len(f) == 6 {
						got[f[5]]++
					}
				}
				if (p.Mode == "cat" || p.Mode == "catdash") && !cancelled[i] && !faultyS[i] {
					for f := 0; f < p.Files; f++ {
						for l := 1; l <= p.Lines; l++ {
							want := fmt.Sprintf("s%df%dl%d\n", i, f, l)
							if got[want] != 1 {
								viol = fmt.Sprintf("session %d (not cancelled): line %q delivered %d times, want 1", i, strings.TrimSpace(want), got[want])
							}
						}
					}
				}
				parts = append(parts, fmt.Sprintf("s%d:%d", i, len(got)))
			}
			if n := lim.Len("end"); n != 0 && viol == "" {
				viol = fmt.Sprintf("limiter holds %d slot(s) after every session has ended", n)
			}
			if n := distinctOpen(dir); n != 0 && viol == "" {
				viol = fmt.Sprintf("%d test file(s) still open after every session has ended", n)
			}
			sort.Strings(parts)
			outcome = fmt.Sprintf("maxopen=%d %s", maxOpen, strings.Join(parts, " "))
		})
		if res.Fail != nil {
			viol = res.Fail.Error()
			outcome = "fail:" + res.Fail.Kind
		}
		return outcome, viol, res
	}
	sc.Filter = func(pt *vrt.Point, alt int) bool {
		inf := pt.Infos[alt]
		if pt.Alts[alt].Kind != vrt.AltRun {
			return true
		}
		o := inf.Obj
		return strings.Contains(o, "Limiter") || strings.Contains(o, "ctx.done") || strings.Contains(o, "done@") ||
			inf.Kind == "yield" || strings.Contains(o, "rawLines") || strings.Contains(o, "lines@") || strings.Contains(o, "activeCommands")
	}
	return sc
}

func c13Sig(msg string, v *explore.Violation) string {
	switch {
	case strings.Contains(msg, "distinct test files open"):
		return "more-files-open-than-limit"
	case strings.Contains(msg, "limiter holds"):
		return "slot-leaked"
	case strings.Contains(msg, "delivered"):
		return "queued-read-did-not-complete"
	case strings.HasPrefix(msg, "horizon"):
		return "read-of-an-ended-session-keeps-its-slot-or-a-queued-read-never-proceeds"
	case strings.HasPrefix(msg, "deadlock"):
		return "deadlock"
	case strings.HasPrefix(msg, "panic"):
		return "panic"
	}
	return "other"
}

func c13Params_(tier string) (ps []c13Params, d int) {
	if tier == "quick" {
		return []c13Params{
			{Mode: "tail", Limit: 1, Sessions: 3, Files: 1, Lines: 1, Cancel: []int{1}},
			{Mode: "tail", Limit: 1, Sessions: 2, Files: 1, Lines: 3, Truncate: true},
			{Mode: "cat", Limit: 1, Sessions: 3, Files: 1, Lines: 2, Cancel: []int{1}},
			{Mode: "cat", Limit: 1, Sessions: 2, Files: 2, Lines: 1},
			{Mode: "cat", Limit: 2, Sessions: 3, Files: 1, Lines: 1, Cancel: []int{0}},
			{Mode: "map", Limit: 1, Sessions: 2, Files: 2, Lines: 1, Cancel: []int{1}},
			{Mode: "cat", Limit: 2, Sessions: 4, Files: 1, Lines: 1, Faulty: []int{1}, ReadDelayMs: 500, D: 1},
			{Mode: "cat", Limit: 1, Sessions: 3, Files: 1, Lines: 1, Faulty: []int{0}, ReadDelayMs: 500, D: 1},
			{Mode: "grepb", Limit: 1, Sessions: 2, Files: 1, Lines: 300, Stuck: []int{0}, D: 1},
			{Mode: "catdash", Limit: 1, Sessions: 2, Files: 2, Lines: 1, ReadDelayMs: 300, D: 1},
			{Mode: "cat", Limit: 1, Sessions: 2, Files: 1, Lines: 300, Stuck: []int{0}, D: 1},
		}, 2
	}
	for _, mode := range []string{"cat", "tail", "map"} {
		for _, limit := range []int{1, 2} {
			for _, sess := range []int{2, 3} {
				for _, files := range []int{1, 2} {
					var subsets [][]int
					for m := 0; m < 1<<sess; m++ {
						var sub []int
						for i := 0; i < sess; i++ {
							if m&(1<<i) != 0 {
								sub = append(sub, i)
							}
						}
						if len(sub) <= 2 {
							subsets = append(subsets, sub)
						}
					}
					for _, sub := range subsets {
						ps = append(ps, c13Params{Mode: mode, Limit: limit, Sessions: sess, Files: files, Lines: 2, Cancel: sub})
					}
				}
			}
		}
	}
	ps = append(ps, c13Params{Mode: "cat", Limit: 2, Sessions: 4, Files: 1, Lines: 1, Faulty: []int{1}, ReadDelayMs: 500, D: 2},
		c13Params{Mode: "cat", Limit: 2, Sessions: 4, Files: 1, Lines: 1, Faulty: []int{0, 2}, ReadDelayMs: 500, D: 1},
		c13Params{Mode: "map", Limit: 2, Sessions: 4, Files: 1, Lines: 1, Faulty: []int{1}, ReadDelayMs: 500, D: 1},
		c13Params{Mode: "grepb", Limit: 1, Sessions: 3, Files: 1, Lines: 300, Stuck: []int{0}, D: 1},
		c13Params{Mode: "grepb", Limit: 2, Sessions: 3, Files: 2, Lines: 300, Stuck: []int{0, 1}, D: 1})
	return ps, 3
}

func init() {
	Register(&Check{
		ID:    "C13",
		Level: "model_checking",
		Rule: "stateless exploration of all schedules within a deviation bound of 2-3 real ServerHandler sessions sharing one limiter (cat, tail and mapreduce reads, limit 1-2, " +
			"1-2 files per session, optional cancellation of sessions at any point, sessions whose read fails after taking its slot while slow reads of other sessions are running, sessions whose client never reads (the read blocks in a send, incl. the flush of grep before-context) and that end two seconds later); a case is one execution; distinct = distinct (scenario, observable outcome) pairs",
		Assumptions: []string{
			"code between two synchronisation operations is atomic (data-race freedom; checked separately by the free-running -race pass)",
			"virtual time advances only when no goroutine is runnable",
			"preemption alternatives are generated at operations on the limiter, done/cancel channels, rawLines/lines channels and the active-command counter; forced switches and select choices always branch",
		},
		QuickBudget: 240 * time.Second,
		Run: func(c *Ctx) {
			ps, d := c13Params_(c.Tier)
			for _, p := range ps {
				if c.Expired() {
					return
				}
				sc := c13Scenario(p)
				dd := d
				if p.D > 0 {
					dd = p.D
				}
				c.Explore(sc, dd, c13Sig)
				c.Sample(map[string]interface{}{"scenario": p.String(), "deviation_bound": d})
			}
		},
		Scenarios: func(tier string) (out []*explore.Scenario) {
			ps, _ := c13Params_(tier)
			for _, p := range ps {
				out = append(out, c13Scenario(p))
			}
			return
		},
		Replay: func(c *Ctx, rec *ViolationRec) string {
			ps, _ := c13Params_("thorough")
			qs, _ := c13Params_("quick")
			for _, p := range append(qs, ps...) {
				if fmt.Sprintf("%q", p.String()) == string(rec.Params) {
					sc := c13Scenario(p)
					sc.Policy = vrt.Policy(rec.Policy)
					sc.Demotion = rec.Demotion
					_, v, _, div := explore.Replay(sc, rec.Choices)
					if div != "" {
						return "replay diverged: " + div
					}
					return v
				}
			}
			return "unknown scenario " + string(rec.Params)
		},
	})
}
