package harness

import (
	"fmt"
	"sort"
	"strconv"
	"strings"
	"time"

	"github.com/mimecast/dtail/internal/clients/connectors"
	chandlers "github.com/mimecast/dtail/internal/clients/handlers"
	"github.com/mimecast/dtail/internal/config"
	"github.com/mimecast/dtail/internal/lcontext"
	"github.com/mimecast/dtail/internal/source"
	"github.com/mimecast/dtail/verif/explore"
	"github.com/mimecast/dtail/verif/vrt"
)

// C07: multi-source output is a whole-line interleaving with correct attribution.

type c07Params struct {
	Servers int
	Files   []int // line counts of the files (same files on every server)
	Glob    bool  // same basename in different directories through one glob
	// Unclean: the glob is spelled non-canonically ("//", "/./", "x/../"), as concatenating a root and a pattern does
	Unclean  int
	LongLine int // if >0, line l of file 0 has this many bytes + 10000*(l-1)
	Kind     string
	// NoFinalNL: the last line of every odd-numbered file has no trailing newline
	NoFinalNL bool
}

func (p c07Params) String() string {
	s := fmt.Sprintf("%s servers=%d files=%v glob=%v longline=%d nofinalnl=%v", p.Kind, p.Servers, p.Files, p.Glob, p.LongLine, p.NoFinalNL)
	if p.Unclean > 0 {
		s += fmt.Sprintf(" unclean-glob-spelling=%d", p.Unclean)
	}
	return s
}

func init() {
	// every in-process server gets the host name of the server string it was
	// created for, as separate machines would have
	vrt.OnHook["internal/clients/connectors.Serverless.handle"] = func(recv interface{}) {
		if s, ok := recv.(*connectors.Serverless); ok && s != nil {
			name := s.Handler().Server()
			if name != "" {
				vrt.SetLabel("env:DTAIL_HOSTNAME_OVERRIDE", name)
			}
		}
	}
}

func c07Line(p c07Params, f, l int) string {
	s := fmt.Sprintf("f%dl%d", f, l)
	if p.Kind == "grepctx" && l%3 == 1 {
		s += "HIT" // lines 1, 4, 7, .. match; with --before 2 --after 1 every line of the file is selected exactly once
	}
	if p.LongLine > 0 && f == 0 {
		// every line of file 0 is longer than one transport read (two such messages per session)
		s += strings.Repeat("x", p.LongLine+10000*(l-1)-len(s))
	}
	return s
}

func c07Setup(p c07Params) (what string, ids []string) {
	dir := strings.NewReplacer(" ", "_", "[", "", "]", "").Replace(fmt.Sprintf("c07/%v-%v-%d-%v%s", p.Files, p.Glob, p.LongLine, p.NoFinalNL, map[bool]string{true: "-grepctx"}[p.Kind == "grepctx"]))
	var paths []string
	for f, n := range p.Files {
		var sb strings.Builder
		for l := 1; l <= n; l++ {
			sb.WriteString(c07Line(p, f, l))
			if !(p.NoFinalNL && f%2 == 1 && l == n) {
				sb.WriteString("\n")
			}
		}
		if p.Glob {
			paths = append(paths, WriteScratch(fmt.Sprintf("%s/d%d/app.log", dir, f), sb.String()))
			ids = append(ids, fmt.Sprintf("d%d", f))
		} else {
			paths = append(paths, WriteScratch(fmt.Sprintf("%s/file%d.log", dir, f), sb.String()))
			ids = append(ids, fmt.Sprintf("file%d.log", f))
		}
	}
	if p.Glob {
		switch p.Unclean {
		case 1:
			return Scratch() + "/" + dir + "//*/app.log", ids
		case 2:
			return Scratch() + "/" + dir + "/./*/app.log", ids
		case 3:
			return Scratch() + "/" + dir + "/d0/../*/app.log", ids
		}
		return Scratch() + "/" + dir + "/*/app.log", ids
	}
	return strings.Join(paths, ","), ids
}

func c07Scenario(p c07Params) *explore.Scenario {
	what, ids := c07Setup(p)
	var servers []string
	for i := 0; i < p.Servers; i++ {
		servers = append(servers, fmt.Sprintf("srv%d", i))
	}
	sc := &explore.Scenario{Name: "c07", Params: p.String(), MaxSteps: 600000, Horizon: 90 * time.Second, Demotion: true}
	sc.Run = func(cfg vrt.Config) (string, string, vrt.Result) {
		var out, viol string
		var hooks []vrt.HookEvent
		res := vrt.Run(cfg, func() {
			args := DefaultArgs()
			args.NoColor = true
			args.Quiet = true
			args.LogLevel = "error"
			args.What = what
			args.ServersStr = strings.Join(servers, ",")
			kind := "cat"
			if p.Kind == "grepctx" {
				kind = "grep"
				args.RegexStr = "HIT"
				args.LContext = lcontext.LContext{BeforeContext: 2, AfterContext: 1}
			}
			r := RunClientBody(ClientOpts{Kind: kind, Args: args, ForceServerless: true, Mutate: func() { config.Server.MaxConcurrentCats = 2 }})
			hooks = vrt.W.Hooks
			out, viol = c07Oracle(p, r, servers, ids)
		})
		if res.Fail != nil {
			viol = res.Fail.Error()
			out = "fail:" + res.Fail.Kind
			hooks = nil
		}
		if viol != "" {
			ncmd := len(p.Files)
			if p.Glob {
				ncmd = 1
			}
			// the C02 hand-shake race also loses whole files here; attribute it to the same known finding
			if cl := c07Shutdown(hooks, ncmd); cl != "" {
				viol = cl + viol
			}
		}
		return out, viol, res
	}
	sc.Filter = func(pt *vrt.Point, alt int) bool {
		if pt.Alts[alt].Kind != vrt.AltRun {
			return true
		}
		switch pt.Infos[alt].Kind {
		case "wgadd", "wgwait":
			return false
		}
		return true // including the stdout logger's mutex: it is what keeps lines whole
	}
	return sc
}

// c07Shutdown applies C02's classification per server handler: the session's
// shutdown was entered while fewer commands had been counted as active than the
// client has to send.
func c07Shutdown(hooks []vrt.HookEvent, ncmd int) string {
	received := map[string]int{}
	for _, h := range hooks {
		k := fmt.Sprintf("%p", h.Recv)
		if strings.HasSuffix(h.Name, "baseHandler.incrementActiveCommands:exit") {
			received[k]++
		}
		if strings.HasSuffix(h.Name, "baseHandler.shutdown") && received[k] < ncmd {
			return "[session-shutdown-began-before-all-commands-were-received] "
		}
	}
	return ""
}

// hooksPresent reports whether the functions the classification observes still
// exist under these names (a refactoring may have renamed them; the
// classification then falls back to what is observable from outside).
func hooksPresent(hooks []vrt.HookEvent) bool {
	inc, shut := false, false
	for _, h := range hooks {
		if strings.HasSuffix(h.Name, "baseHandler.incrementActiveCommands:exit") {
			inc = true
		}
		if strings.HasSuffix(h.Name, "baseHandler.shutdown") {
			shut = true
		}
	}
	return inc && shut
}

func c07Oracle(p c07Params, r ClientResult, servers, ids []string) (string, string) {
	if r.Err != "" {
		return "err", "client error " + r.Err
	}
	type src struct{ host, id string }
	next := map[src]int{}
	var order []string
	for _, l := range strings.SplitAfter(r.Stdout, "\n") {
		if l == "" {
			continue
		}
		f := strings.SplitN(strings.TrimSuffix(l, "\n"), "|", 6)
		if len(f) != 6 || f[0] != "REMOTE" || !strings.HasSuffix(l, "\n") {
			return "garbage", fmt.Sprintf("output line %q is not one whole REMOTE|host|perc|n|id|text record", trunc(l))
		}
		n, err := strconv.Atoi(f[3])
		if err != nil {
			return "garbage", fmt.Sprintf("output line %q has a non-numeric line number", trunc(l))
		}
		s := src{f[1], f[4]}
		fi := -1
		for i, id := range ids {
			if id == f[4] {
				fi = i
			}
		}
		okHost := false
		for _, h := range servers {
			if h == f[1] {
				okHost = true
			}
		}
		if fi < 0 || !okHost {
			return "garbage", fmt.Sprintf("output line %q is attributed to unknown source host=%q id=%q", trunc(l), f[1], f[4])
		}
		if n != next[s]+1 {
			return "order", fmt.Sprintf("source %v: line number %d follows %d (lines of one source must keep their order, each once)", s, n, next[s])
		}
		if want := c07Line(p, fi, n); f[5] != want {
			return "content", fmt.Sprintf("source %v line %d: text %q is not line %d of that file (%q)", s, n, trunc(f[5]), n, trunc(want))
		}
		next[s] = n
		order = append(order, fmt.Sprintf("%s/%d", f[1][3:], fi))
	}
	var viol string
	for _, h := range servers {
		for i, id := range ids {
			if next[src{h, id}] != p.Files[i] {
				viol = fmt.Sprintf("source {%s %s}: %d of %d lines in the output", h, id, next[src{h, id}], p.Files[i])
			}
		}
	}
	if viol == "" && r.Status != 0 {
		viol = fmt.Sprintf("exit status %d", r.Status)
	}
	_ = sort.Strings // outcome = the interleaving of sources
	return strings.Join(order, ","), viol
}

func trunc(s string) string {
	if len(s) > 80 {
		return s[:80] + fmt.Sprintf("...(%d bytes)", len(s))
	}
	return s
}

func c07Sig(msg string, v *explore.Violation) string {
	switch {
	case strings.HasPrefix(msg, "[session-shutdown-began"):
		return "session-shutdown-began-before-all-commands-were-received"
	case strings.Contains(msg, "is not one whole"):
		return "output-line-not-whole"
	case strings.Contains(msg, "unknown source"):
		return "wrong-attribution"
	case strings.Contains(msg, "follows"):
		return "source-order-or-duplication"
	case strings.Contains(msg, "is not line"):
		return "wrong-text-for-line-number"
	case strings.Contains(msg, "lines in the output"):
		return "lines-missing"
	case strings.HasPrefix(msg, "panic"):
		return "panic"
	case strings.HasPrefix(msg, "pool:"):
		return "pooled-object-returned-twice"
	case strings.HasPrefix(msg, "deadlock"):
		return "deadlock"
	}
	return "other"
}

func c07ParamSets(tier string) (ps []c07Params, d int) {
	if tier == "quick" {
		return []c07Params{
			{Kind: "cat", Servers: 2, Files: []int{2}},
			{Kind: "cat", Servers: 2, Files: []int{1, 1}, Glob: true},
			{Kind: "cat", Servers: 1, Files: []int{2, 2}, Glob: true},
			{Kind: "cat", Servers: 1, Files: []int{1, 2}, Glob: true, Unclean: 1},
			{Kind: "cat", Servers: 1, Files: []int{2, 1}, Glob: true, Unclean: 2},
			{Kind: "cat", Servers: 2, Files: []int{1, 1}, Glob: true, Unclean: 3},
			{Kind: "cat", Servers: 2, Files: []int{2}, LongLine: 40000},
			{Kind: "cat", Servers: 1, Files: []int{2, 2, 2}, Glob: true, NoFinalNL: true},
			// dgrep with before AND after context over files whose every third line matches: context lines travel through
			// the reader's before-buffer and after-window, and every line is selected exactly once
			{Kind: "grepctx", Servers: 2, Files: []int{7}},
			{Kind: "grepctx", Servers: 1, Files: []int{7, 5}, Glob: true},
		}, 1
	}
	for _, srv := range []int{1, 2, 3} {
		for _, files := range [][]int{{1}, {2}, {1, 1}, {2, 1}, {2, 2}} {
			for _, glob := range []bool{false, true} {
				if glob && len(files) == 1 {
					continue
				}
				if srv*len(files) > 4 {
					continue
				}
				ps = append(ps, c07Params{Kind: "cat", Servers: srv, Files: files, Glob: glob})
			}
		}
	}
	ps = append(ps, c07Params{Kind: "cat", Servers: 2, Files: []int{2}, LongLine: 40000},
		c07Params{Kind: "cat", Servers: 2, Files: []int{2, 1}, Glob: true, LongLine: 70000},
		c07Params{Kind: "grepctx", Servers: 2, Files: []int{7}}, c07Params{Kind: "grepctx", Servers: 1, Files: []int{7, 5}, Glob: true}, c07Params{Kind: "grepctx", Servers: 1, Files: []int{10}})
	return ps, 2
}

// c07ClientMerge: the CLIENT side of a multi-server session on its own.  The wire streams of two servers reach two
// real client handlers in transport reads (chunks); every order in which the chunks of the two connections can
// arrive is enumerated.  The client process has its own configuration, which need not be the servers': a server
// with a larger MaxLineLength sends records longer than the client's own setting.  Oracle: the output lines are an
// interleaving of the two servers' lines (the lines each handler prints when it is fed alone), whole and in order.
func c07ClientMerge(c *Ctx) {
	if c.Shard != 0 {
		return
	}
	type cfg struct {
		ClientMaxLineLength int `json:"max_line_length_in_the_client_process"`
		Long                int `json:"bytes_of_the_long_line"`
		Chunk               int `json:"transport_read_size"`
	}
	for _, k := range []cfg{{8, 3000, 1000}, {1024, 3000, 1000}, {1024, 70000, 32768}, {1024 * 1024, 70000, 32768}, {1024 * 1024, 3000, 700}} {
		k := k
		rec := func(host string, n int, text string) string {
			return fmt.Sprintf("REMOTE|%s|100|%d|f.log|%s\n\xac", host, n, text) // (a line's content ends with its newline)
		}
		streamA := rec("srvA", 1, "first") + rec("srvA", 2, strings.Repeat("x", k.Long)) + rec("srvA", 3, "last")
		streamB := rec("srvB", 1, "b one") + rec("srvB", 2, "b two") + rec("srvB", 3, "b three")
		chunks := func(s string, size int) (out []string) {
			for len(s) > size {
				out = append(out, s[:size])
				s = s[size:]
			}
			return append(out, s)
		}
		ca := chunks(streamA, k.Chunk)
		cb := []string{rec("srvB", 1, "b one"), rec("srvB", 2, "b two"), rec("srvB", 3, "b three")} // one record per read
		_ = streamB
		// all merges of the two chunk sequences, as bit strings (true = next chunk of A)
		var orders [][]bool
		var gen func(cur []bool, a, b int)
		gen = func(cur []bool, a, b int) {
			if a == len(ca) && b == len(cb) {
				orders = append(orders, append([]bool{}, cur...))
				return
			}
			if a < len(ca) {
				gen(append(cur, true), a+1, b)
			}
			if b < len(cb) {
				gen(append(cur, false), a, b+1)
			}
		}
		gen(nil, 0, 0)
		res := vrt.Run(vrt.Config{MaxSteps: 1 << 40, Horizon: 100000 * time.Hour}, func() {
			args := DefaultArgs()
			args.Logger = "stdout"
			args.LogLevel = "info"
			args.NoColor = true
			StartEnv(source.Client, &args, func() { config.Server.MaxLineLength = k.ClientMaxLineLength })
			feed := func(order []bool) []string {
				vrt.Out().Buf.Reset()
				hA, hB := chandlers.NewClientHandler("srvA"), chandlers.NewClientHandler("srvB")
				a, b := 0, 0
				for _, isA := range order {
					if isA {
						hA.Write([]byte(ca[a]))
						a++
					} else {
						hB.Write([]byte(cb[b]))
						b++
					}
				}
				vrt.Sleep("settle", time.Second)
				hA.Shutdown()
				hB.Shutdown()
				out := vrt.Out().Buf.String()
				if out == "" {
					return nil
				}
				return strings.Split(strings.TrimSuffix(out, "\n"), "\n")
			}
			// the two servers one after the other: what each prints on its own
			var onlyA, onlyB []bool
			for range ca {
				onlyA = append(onlyA, true)
			}
			for range cb {
				onlyB = append(onlyB, false)
			}
			seq := feed(append(append([]bool{}, onlyA...), onlyB...))
			var wantA, wantB []string
			for _, l := range seq {
				if strings.Contains(l, "|srvA|") {
					wantA = append(wantA, l)
				} else {
					wantB = append(wantB, l)
				}
			}
			if len(wantA) != 3 || len(wantB) != 3 {
				c.Violation("client-prints-records-in-pieces", fmt.Sprintf("client MaxLineLength %d: server A sends 3 records (one of %d bytes) in reads of %d bytes, then server B sends 3: the client printed %d lines for A and %d for B, want 3 and 3", k.ClientMaxLineLength, k.Long, k.Chunk, len(wantA), len(wantB)), k)
				return
			}
			for _, order := range orders {
				got := feed(order)
				c.Count(fmt.Sprintf("merge|%v|%v", k, order))
				ia, ib := 0, 0
				bad := ""
				for _, l := range got {
					switch {
					case ia < len(wantA) && l == wantA[ia]:
						ia++
					case ib < len(wantB) && l == wantB[ib]:
						ib++
					default:
						bad = fmt.Sprintf("output line %s is not the next whole line of either server", trunc(l))
					}
					if bad != "" {
						break
					}
				}
				if bad == "" && (ia != len(wantA) || ib != len(wantB)) {
					bad = fmt.Sprintf("%d of 3 lines of server A and %d of 3 of server B were printed", ia, ib)
				}
				if bad != "" {
					c.Violation("client-output-not-an-interleaving-of-whole-lines", fmt.Sprintf("client process with MaxLineLength %d; server A sends 3 records (the second %d bytes long) in transport reads of %d bytes, server B 3 short records; arrival order of the reads (A=true) %v: %s", k.ClientMaxLineLength, k.Long, k.Chunk, order, bad), k)
					return
				}
			}
		})
		if res.Fail != nil {
			c.Violation("panic", res.Fail.Error(), k)
		}
	}
}

func init() {
	Register(&Check{
		ID:    "C07",
		Level: "model_checking",
		Rule: "stateless exploration of all schedules within a deviation bound (quick 1, thorough 2) of a non-plain, no-colour dcat session over 1-3 in-process servers (each its own Serverless connector, ServerHandler and host name) " +
			"x 1-2 files (distinct basenames, or the same basename in different directories through one glob, also spelled with '//', '/./' and 'x/../') x 1-2 lines, plus lines of 40000/70000 bytes that span several transport reads, plus dgrep sessions with --before 2 --after 1 over files of 5-10 lines whose every third line matches (every line is selected once; context lines travel through the reader's before-buffer and after-window); the stdout logger's lock operations are branching points; " +
			"oracle: every stdout line is exactly one REMOTE|host|perc|n|id|text record whose text is line n of source (host,id), per source n = 1,2,.. without gap or repeat, every line present; plus the real TailFile reader with a source faster than its consumer (queue capacity 1/4/100, histories of up to 450 lines, lines dropped at a full queue): every delivered line carries its own running number; plus the client side alone: the wire streams of two servers (one sends a record of 3000 / 70000 bytes) reach two real client handlers in transport reads of 700 / 1000 / 32768 bytes, in EVERY arrival order of the reads, in a client process whose own MaxLineLength setting is 8, 1024 or the default (a client's configuration is not the servers'): the output is an interleaving of the whole lines of both; distinct = distinct (scenario, outcome) pairs",
		Assumptions: []string{
			"code between two synchronisation operations is atomic (data-race freedom; checked by the free-running -race pass)",
			"the servers run in the client's process through the serverless connector (the SSH transport is a byte stream with arbitrary segmentation; segmentation below 32 KiB is covered by the long-line scenarios)",
			"files are newline-terminated",
		},
		Scenarios: func(tier string) (out []*explore.Scenario) {
			ps, _ := c07ParamSets(tier)
			for _, p := range ps {
				out = append(out, c07Scenario(p))
			}
			return
		},
		Run: func(c *Ctx) {
			ps, d := c07ParamSets(c.Tier)
			for _, p := range ps {
				if c.Expired() {
					return
				}
				c.Explore(c07Scenario(p), d, c07Sig)
				c.Sample(map[string]interface{}{"scenario": p.String(), "deviation_bound": d})
			}
			c07ClientMerge(c)
			// a followed source that is faster than the client: lines are dropped at a full queue; every line that IS
			// delivered must still carry its own running number (the follow scenarios of C04 with their label oracle)
			ps4, _ := c04ParamSets(c.Tier)
			for i, p := range ps4 {
				if c.Expired() {
					return
				}
				dd := -1
				switch {
				case p.Hist > 0:
					dd = 0
				case p.Cap == 1 && p.Late:
					dd = 1
				}
				if dd < 0 {
					continue
				}
				sc := c04Scenario(p, 500000+c.Shard*100000+i)
				sc.Name = "c07-follow-labels"
				sc.Agg = fmt.Sprintf("c07-follow-labels cap=%d history=%v", p.Cap, p.Hist > 0)
				c.Explore(sc, dd, func(msg string, v *explore.Violation) string {
					if strings.Contains(msg, "labelled with running number") {
						return "wrong-running-number-after-dropped-lines"
					}
					return c07Sig(msg, v)
				})
			}
		},
		Replay: func(c *Ctx, rec *ViolationRec) string {
			for _, tier := range []string{"quick", "thorough"} {
				ps, _ := c07ParamSets(tier)
				for _, p := range ps {
					if fmt.Sprintf("%q", p.String()) == string(rec.Params) {
						sc := c07Scenario(p)
						sc.Policy = vrt.Policy(rec.Policy)
						sc.Demotion = rec.Demotion
						_, v, _, div := explore.Replay(sc, rec.Choices)
						if div != "" {
							return "replay diverged: " + div
						}
						return v
					}
				}
			}
			return "unknown scenario " + string(rec.Params) + " (follow-label scenarios: re-run bin/check C07 quick)"
		},
	})
}
