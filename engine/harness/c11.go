package harness

import (
	"crypto/md5"
	"encoding/hex"
	"fmt"
	"reflect"
	"strconv"
	"strings"
	"time"

	"github.com/mimecast/dtail/internal/mapr"
	"github.com/mimecast/dtail/internal/source"
	"github.com/mimecast/dtail/verif/vrt"
)

// C11: valid queries parse to the structure they denote; invalid ones are rejected.

type aSel struct {
	Text, Field, Storage string
	Op                   mapr.AggregateOperation
}

type aArg struct {
	Text string // surface
	Val  string // denoted string
	Type string // Field String Float
}

type aCond struct {
	L  aArg
	Op string
	R  aArg
}

type aSet struct {
	Text   string // surface, e.g. "$a = maskdigits(md5sum(h))"
	L      string
	R      string
	RType  string
	Funcs  []string
	RFloat float64
}

type aOut struct {
	Text   string // path as written (quoted or bare)
	Path   string
	Append bool
}

type aQuery struct {
	Sel       []aSel
	Table     string
	Where     []aCond
	Group     []string // surface == value here except back-quoted
	GroupText []string
	Order     string // surface of the order key ("" none)
	OrderKey  string
	Rev       bool
	Set       []aSet
	Interval  int // -1 none
	Limit     int // -1 none
	Out       *aOut
	LogFormat string
}

// surface options
type aSurface struct {
	Order  int // clause order variant: 0 canonical, 1 reversed, 2.. rotations
	Case   int // 0 lower 1 UPPER 2 Mixed
	Sep    int // 0 ", " 1 "," 2 " , " 3 " "
	By     bool
	AndSep int // 0 " and " 1 " " 2 ", "
	WS     int // white space between tokens: 0 " " 1 "\n" 2 "\t" 3 "  " 4 "\r\n" 5 " \n  "
}

func kw(s string, c int) string {
	switch c {
	case 1:
		return strings.ToUpper(s)
	case 2:
		return strings.ToUpper(s[:1]) + s[1:]
	}
	return s
}

var c11Seps = []string{", ", ",", " , ", " "}

func (q *aQuery) render(sf aSurface) string {
	sep := c11Seps[sf.Sep]
	var clauses []string
	var sel []string
	for _, s := range q.Sel {
		sel = append(sel, s.Text)
	}
	clauses = append(clauses, kw("select", sf.Case)+" "+strings.Join(sel, sep))
	if q.Table != "" {
		clauses = append(clauses, kw("from", sf.Case)+" "+q.Table)
	}
	if len(q.Where) > 0 {
		var cs []string
		for _, c := range q.Where {
			cs = append(cs, c.L.Text+" "+kw(c.Op, sf.Case)+" "+c.R.Text)
		}
		and := []string{" " + kw("and", sf.Case) + " ", " ", ", "}[sf.AndSep]
		clauses = append(clauses, kw("where", sf.Case)+" "+strings.Join(cs, and))
	}
	by := " "
	if sf.By {
		by = " " + kw("by", sf.Case) + " "
	}
	if len(q.GroupText) > 0 {
		clauses = append(clauses, kw("group", sf.Case)+by+strings.Join(q.GroupText, sep))
	}
	if q.Order != "" {
		k := "order"
		if q.Rev {
			k = "rorder"
		}
		clauses = append(clauses, kw(k, sf.Case)+by+q.Order)
	}
	if len(q.Set) > 0 {
		var ss []string
		for _, s := range q.Set {
			ss = append(ss, s.Text)
		}
		clauses = append(clauses, kw("set", sf.Case)+" "+strings.Join(ss, sep))
	}
	if q.Interval >= 0 {
		clauses = append(clauses, kw("interval", sf.Case)+" "+strconv.Itoa(q.Interval))
	}
	if q.Limit >= 0 {
		clauses = append(clauses, kw("limit", sf.Case)+" "+strconv.Itoa(q.Limit))
	}
	if q.Out != nil {
		s := kw("outfile", sf.Case) + " "
		if q.Out.Append {
			s += kw("append", sf.Case) + " "
		}
		clauses = append(clauses, s+q.Out.Text)
	}
	if q.LogFormat != "" {
		clauses = append(clauses, kw("logformat", sf.Case)+" "+q.LogFormat)
	}
	n := len(clauses)
	switch {
	case sf.Order == 1:
		for i, j := 0, n-1; i < j; i, j = i+1, j-1 {
			clauses[i], clauses[j] = clauses[j], clauses[i]
		}
	case sf.Order >= 2:
		k := (sf.Order - 1) % n
		clauses = append(clauses[k:], clauses[:k]...)
	}
	q1 := strings.Join(clauses, " ")
	if sf.WS == 0 {
		return q1
	}
	// replace every blank outside double quotes by the chosen white space
	ws := []string{" ", "\n", "\t", "  ", "\r\n", " \n  "}[sf.WS]
	var sb strings.Builder
	inQuote := false
	for _, r := range q1 {
		switch {
		case r == '"':
			inQuote = !inQuote
			sb.WriteRune(r)
		case r == ' ' && !inQuote:
			sb.WriteString(ws)
		default:
			sb.WriteRune(r)
		}
	}
	return sb.String()
}

var c11Fields = map[string]string{"f": "5", "g": "abc", "$v": "7", "from": "x", "h": "12ab", "count(x)": "9"}

var c11OpCode = map[string]mapr.QueryOperation{
	"==": mapr.FloatEq, "!=": mapr.FloatNe, "<": mapr.FloatLt, "<=": mapr.FloatLe, "=<": mapr.FloatLe,
	">": mapr.FloatGt, ">=": mapr.FloatGe, "=>": mapr.FloatGe,
	"eq": mapr.StringEq, "ne": mapr.StringNe, "contains": mapr.StringContains, "ncontains": mapr.StringNotContains,
	"lacks": mapr.StringNotContains, "hasprefix": mapr.StringHasPrefix, "nhasprefix": mapr.StringNotHasPrefix,
	"hassuffix": mapr.StringHasSuffix, "nhassuffix": mapr.StringNotHasSuffix,
}

func (a aArg) str(fields map[string]string) (string, bool) {
	if a.Type == "Field" {
		v, ok := fields[a.Val]
		return v, ok
	}
	return a.Val, true
}

func (a aArg) num(fields map[string]string) (float64, bool) {
	s, ok := a.str(fields)
	if !ok {
		return 0, false
	}
	f, err := strconv.ParseFloat(s, 64)
	return f, err == nil
}

// denotation of the where clause on one line
func (q *aQuery) whereRef(fields map[string]string) bool {
	for _, c := range q.Where {
		op := c11OpCode[c.Op]
		if op > mapr.FloatOperation {
			l, ok1 := c.L.num(fields)
			r, ok2 := c.R.num(fields)
			if !ok1 || !ok2 {
				return false
			}
			var res bool
			switch op {
			case mapr.FloatEq:
				res = l == r
			case mapr.FloatNe:
				res = l != r
			case mapr.FloatLt:
				res = l < r
			case mapr.FloatLe:
				res = l <= r
			case mapr.FloatGt:
				res = l > r
			case mapr.FloatGe:
				res = l >= r
			}
			if !res {
				return false
			}
			continue
		}
		l, ok1 := c.L.str(fields)
		r, ok2 := c.R.str(fields)
		if !ok1 || !ok2 {
			return false
		}
		var res bool
		switch op {
		case mapr.StringEq:
			res = l == r
		case mapr.StringNe:
			res = l != r
		case mapr.StringContains:
			res = strings.Contains(l, r)
		case mapr.StringNotContains:
			res = !strings.Contains(l, r)
		case mapr.StringHasPrefix:
			res = strings.HasPrefix(l, r)
		case mapr.StringNotHasPrefix:
			res = !strings.HasPrefix(l, r)
		case mapr.StringHasSuffix:
			res = strings.HasSuffix(l, r)
		case mapr.StringNotHasSuffix:
			res = !strings.HasSuffix(l, r)
		}
		if !res {
			return false
		}
	}
	return true
}

func (q *aQuery) setRef(fields map[string]string) map[string]string {
	out := map[string]string{}
	for k, v := range fields {
		out[k] = v
	}
	for _, s := range q.Set {
		v, ok := out[s.R]
		if !ok {
			v = s.R
		}
		for i := len(s.Funcs) - 1; i >= 0; i-- {
			switch s.Funcs[i] {
			case "md5sum":
				h := md5.Sum([]byte(v))
				v = hex.EncodeToString(h[:])
			case "maskdigits":
				b := []byte(v)
				for j := range b {
					if b[j] >= '0' && b[j] <= '9' {
						b[j] = '.'
					}
				}
				v = string(b)
			}
		}
		out[s.L] = v
	}
	return out
}

// compare returns "" if the parsed query is exactly what q denotes.
func (q *aQuery) compare(p *mapr.Query) string {
	sel := p.VerifSelect()
	if len(sel) != len(q.Sel) {
		return fmt.Sprintf("select list has %d items, want %d", len(sel), len(q.Sel))
	}
	for i, s := range q.Sel {
		if sel[i].Field != s.Field || sel[i].Storage != s.Storage || sel[i].Op != int(s.Op) {
			return fmt.Sprintf("select[%d] = %+v, want field %q storage %q op %d", i, sel[i], s.Field, s.Storage, s.Op)
		}
	}
	if p.Table != strings.ToUpper(q.Table) {
		return fmt.Sprintf("table %q, want %q", p.Table, strings.ToUpper(q.Table))
	}
	wh := p.VerifWhere()
	if len(wh) != len(q.Where) {
		return fmt.Sprintf("%d where conditions, want %d", len(wh), len(q.Where))
	}
	for i, c := range q.Where {
		w := wh[i]
		if w.Op != int(c11OpCode[c.Op]) || w.L != c.L.Val || w.R != c.R.Val || w.LType != c.L.Type || w.RType != c.R.Type {
			return fmt.Sprintf("where[%d] = %+v, want %+v", i, w, c)
		}
		if c.L.Type == "Float" {
			if f, _ := strconv.ParseFloat(c.L.Val, 64); f != w.LF {
				return fmt.Sprintf("where[%d] left number %v, want %v", i, w.LF, f)
			}
		}
		if c.R.Type == "Float" {
			if f, _ := strconv.ParseFloat(c.R.Val, 64); f != w.RF {
				return fmt.Sprintf("where[%d] right number %v, want %v", i, w.RF, f)
			}
		}
	}
	st := p.VerifSet()
	if len(st) != len(q.Set) {
		return fmt.Sprintf("%d set assignments, want %d", len(st), len(q.Set))
	}
	for i, s := range q.Set {
		g := st[i]
		if g.L != s.L || g.R != s.R || g.RType != s.RType || !reflect.DeepEqual(g.Funcs, s.Funcs) || (s.RType == "Float" && g.RF != s.RFloat) {
			return fmt.Sprintf("set[%d] = %+v, want %+v", i, g, s)
		}
	}
	wantGroup := q.Group
	wantKey := strings.Join(q.Group, ",")
	if len(q.Group) == 0 {
		wantGroup = []string{q.Sel[0].Field}
		wantKey = ""
	}
	if !reflect.DeepEqual(p.GroupBy, wantGroup) {
		return fmt.Sprintf("group by %q, want %q", p.GroupBy, wantGroup)
	}
	if p.GroupKey != wantKey {
		return fmt.Sprintf("group key %q, want %q", p.GroupKey, wantKey)
	}
	if p.OrderBy != q.OrderKey || p.ReverseOrder != q.Rev {
		return fmt.Sprintf("order by %q reverse=%v, want %q reverse=%v", p.OrderBy, p.ReverseOrder, q.OrderKey, q.Rev)
	}
	wantIv := 5 * time.Second
	if q.Interval >= 0 {
		wantIv = time.Duration(q.Interval) * time.Second
	}
	if p.Interval != wantIv {
		return fmt.Sprintf("interval %v, want %v", p.Interval, wantIv)
	}
	if p.Limit != q.Limit {
		return fmt.Sprintf("limit %d, want %d", p.Limit, q.Limit)
	}
	if (p.Outfile == nil) != (q.Out == nil) {
		return fmt.Sprintf("outfile %v, want %v", p.Outfile, q.Out)
	}
	if q.Out != nil && (p.Outfile.FilePath != q.Out.Path || p.Outfile.AppendMode != q.Out.Append) {
		return fmt.Sprintf("outfile %v, want %+v", p.Outfile, *q.Out)
	}
	if p.LogFormat != q.LogFormat {
		return fmt.Sprintf("logformat %q, want %q", p.LogFormat, q.LogFormat)
	}
	// one-line evaluation
	if got, want := p.WhereClause(c11Fields), q.whereRef(c11Fields); got != want {
		return fmt.Sprintf("where clause evaluates to %v on %v, want %v", got, c11Fields, want)
	}
	fc := map[string]string{}
	for k, v := range c11Fields {
		fc[k] = v
	}
	if err := p.SetClause(fc); err != nil {
		return "set clause error " + err.Error()
	}
	if want := q.setRef(c11Fields); !reflect.DeepEqual(fc, want) {
		return fmt.Sprintf("set clause yields %v, want %v", fc, want)
	}
	return ""
}

// ---- menus -------------------------------------------------------------------

var c11SelItems = []aSel{
	{"f", "f", "f", mapr.Last},
	{"count(f)", "f", "count(f)", mapr.Count},
	{"$v", "$v", "$v", mapr.Last},
	{"sum($v)", "$v", "sum($v)", mapr.Sum},
	{"`from`", "from", "from", mapr.Last},
	{"`count(x)`", "count(x)", "count(x)", mapr.Last},
	{"min(h)", "h", "min(h)", mapr.Min},
	{"max(h)", "h", "max(h)", mapr.Max},
	{"avg($v)", "$v", "avg($v)", mapr.Avg},
	{"len(g)", "g", "len(g)", mapr.Len},
	{"last(g)", "g", "last(g)", mapr.Last},
}

func c11SelLists(full bool) (out [][]aSel) {
	for _, s := range c11SelItems {
		out = append(out, []aSel{s})
	}
	n := 4
	if full {
		n = len(c11SelItems)
	}
	for i := 0; i < n; i++ {
		for j := 0; j < len(c11SelItems); j++ {
			if i != j {
				out = append(out, []aSel{c11SelItems[i], c11SelItems[j]})
			}
		}
	}
	return
}

func c11Conds() (out []aCond) {
	fl := []aArg{{"f", "f", "Field"}, {"$v", "$v", "Field"}, {"3", "3", "Float"}}
	fr := []aArg{{"$v", "$v", "Field"}, {"5", "5", "Float"}, {"2.5", "2.5", "Float"}, {"g", "g", "Field"},
		// every spelling of a decimal number: exponent notation, explicit sign, leading / trailing dot, leading zeros
		{"1e3", "1e3", "Float"}, {"1E3", "1E3", "Float"}, {"2.5e-3", "2.5e-3", "Float"}, {"-1.5e6", "-1.5e6", "Float"}, {"+5", "+5", "Float"}, {".5", ".5", "Float"}, {"5.", "5.", "Float"}, {"007", "007", "Float"}, {"-0", "-0", "Float"}}
	for _, op := range []string{"==", "!=", "<", "<=", "=<", ">", ">=", "=>"} {
		for _, l := range fl {
			for _, r := range fr {
				out = append(out, aCond{l, op, r})
			}
		}
	}
	sl := []aArg{{"g", "g", "Field"}, {`"abc"`, "abc", "String"}, {"`from`", "from", "Field"}}
	sr := []aArg{{"h", "h", "Field"}, {`"ab"`, "ab", "String"}, {`"select from, x"`, "select from, x", "String"}, {`"bc"`, "bc", "String"}}
	for _, op := range []string{"eq", "ne", "contains", "ncontains", "lacks", "hasprefix", "nhasprefix", "hassuffix", "nhassuffix"} {
		for _, l := range sl {
			for _, r := range sr {
				out = append(out, aCond{l, op, r})
			}
		}
	}
	return
}

func c11SmallWheres() [][]aCond {
	return [][]aCond{
		nil,
		{{aArg{"f", "f", "Field"}, ">", aArg{"3", "3", "Float"}}},
		{{aArg{"g", "g", "Field"}, "eq", aArg{`"select from, x"`, "select from, x", "String"}}, {aArg{"$v", "$v", "Field"}, "<=", aArg{"7", "7", "Float"}}},
	}
}

var c11Sets = [][]aSet{
	nil,
	{{"$a = g", "$a", "g", "Field", nil, 0}},
	{{"$a = maskdigits(md5sum(h))", "$a", "h", "FunctionStack", []string{"maskdigits", "md5sum"}, 0}},
	{{"$a = 12", "$a", "12", "Float", nil, 12}},
	{{"$a = g", "$a", "g", "Field", nil, 0}, {"$b = maskdigits(h)", "$b", "h", "FunctionStack", []string{"maskdigits"}, 0}},
	{{"$a = `count(x)`", "$a", "count(x)", "Field", nil, 0}},
}

var c11Groups = [][2][]string{
	{nil, nil},
	{{"f"}, {"f"}},
	{{"f", "g"}, {"f", "g"}},
	{{"from"}, {"`from`"}},
}

var c11Outs = []*aOut{nil, {`"o.csv"`, "o.csv", false}, {"o.csv", "o.csv", false}, {`"o.csv"`, "o.csv", true}, {`"dir with space/o, select.csv"`, "dir with space/o, select.csv", true}}

func c11Build(sel []aSel, table string, where []aCond, grp int, ord int, set []aSet, iv, lim int, out *aOut, lf string) *aQuery {
	q := &aQuery{Sel: sel, Table: table, Where: where, Group: c11Groups[grp][0], GroupText: c11Groups[grp][1], Set: set,
		Interval: iv, Limit: lim, Out: out, LogFormat: lf}
	switch ord {
	case 1:
		q.Order, q.OrderKey = sel[0].Text, sel[0].Storage
	case 2:
		q.Order, q.OrderKey, q.Rev = sel[len(sel)-1].Text, sel[len(sel)-1].Storage, true
	}
	return q
}

func c11CheckValid(c *Ctx, q *aQuery, sf aSurface) {
	s := q.render(sf)
	nontrivial := len(q.Where) > 0 || len(q.Set) > 0 || sf != (aSurface{By: true})
	key := ""
	if nontrivial {
		key = s
	}
	c.Count(key)
	if c.Res.Evaluations%4096 == 0 {
		vrt.Forget()
	}
	var p *mapr.Query
	var err error
	var pv interface{}
	func() {
		defer func() { pv = recover() }()
		p, err = mapr.NewQuery(s)
	}()
	if pv != nil {
		c.Violation("parser-panic", fmt.Sprintf("query %q: panic %v", s, pv), map[string]string{"query": s})
		return
	}
	if err != nil {
		sig := "valid-query-rejected"
		if q.Out != nil && q.Out.Append && sf.Case != 0 {
			sig = "outfile-append-keyword-case-rejected"
		}
		c.Violation(sig, fmt.Sprintf("valid query %q rejected: %v", s, err), map[string]string{"query": s})
		return
	}
	var d string
	func() {
		defer func() {
			if r := recover(); r != nil {
				d = fmt.Sprintf("panic while comparing/evaluating: %v", r)
			}
		}()
		d = q.compare(p)
	}()
	if d != "" {
		c.Violation("misparsed", fmt.Sprintf("query %q: %s", s, d), map[string]string{"query": s})
	}
}

var c11Invalid = []struct{ Class, Query string }{
	{"missing select list", "select"},
	{"missing select list", "select from t"},
	{"missing select list", "from t"},
	{"from without table", "select f from"},
	{"from without table", "select f from where f > 3"},
	{"from with two tables", "select f from a b"},
	{"incomplete where", "select f from t where f"},
	{"incomplete where", "select f from t where f <"},
	{"incomplete where", "select f where f > 3 and g"},
	{"unknown where operator", "select f where f <> 3"},
	{"unknown where operator", "select f where f like g"},
	{"unknown aggregation", "select median(f) from t"},
	{"unknown aggregation", "select cnt(f)"},
	{"malformed aggregation", "select count(f"},
	{"malformed aggregation", "select count(f))"},
	{"unknown leading keyword", "choose f from t"},
	{"unknown leading keyword", "f from t"},
	{"limit not a number", "select f limit x"},
	{"limit without number", "select f limit"},
	{"limit without number", "select f limit group by f"},
	{"interval not a number", "select f interval soon"},
	{"order key not selected", "select f order by g"},
	{"order key not selected", "select count(f) rorder by f"},
	{"order without key", "select f order by"},
	{"group without key", "select f group"},
	{"outfile with three operands", `select f outfile append "a" "b"`},
	{"outfile without operand", "select f outfile"},
	{"outfile with two paths", `select f outfile "a" "b"`},
	{"set without =", "select f set $a g h"},
	{"set without $", "select f set a = g"},
	{"set incomplete", "select f set $a ="},
	{"set unknown function", "select f set $a = sha1(g)"},
	{"logformat without name", "select f logformat"},
	{"lone back-quote", "select `"},
	{"lone back-quote", "select f from `"},
	{"lone back-quote", "select f where ` eq g"},
	{"lone back-quote", "select f group by `"},
	{"lone back-quote", "select f order by `"},
	{"float operator with quoted string", `select f where f > "3"`},
}

func c11CheckInvalid(c *Ctx) {
	for _, iv := range c11Invalid {
		for cs := 0; cs < 3; cs++ {
			s := iv.Query
			if cs == 1 {
				// upper-case the clause keywords only
				for _, k := range []string{"select", "from", "where", "group", "order", "rorder", "limit", "interval", "outfile", "set", "logformat"} {
					s = strings.ReplaceAll(" "+s+" ", " "+k+" ", " "+strings.ToUpper(k)+" ")
					s = strings.TrimSpace(s)
				}
			}
			if cs == 2 {
				s = "  " + strings.ReplaceAll(s, " ", "  ") + " "
			}
			c.Count("invalid:" + s)
			var err error
			var pv interface{}
			func() {
				defer func() { pv = recover() }()
				_, err = mapr.NewQuery(s)
			}()
			if pv != nil {
				sig := "parser-panic"
				if strings.Contains(iv.Class, "back-quote") {
					sig = "parser-panic-lone-backquote"
				}
				c.Violation(sig, fmt.Sprintf("malformed query %q (%s): panic %v", s, iv.Class, pv), map[string]string{"query": s})
				continue
			}
			if err == nil && !strings.Contains(iv.Class, "back-quote") {
				// a lone back-quote is not clearly malformed under the documented grammar (it can be
				// read as a bareword); the statement only demands that it does not panic
				c.Violation("malformed-query-accepted:"+iv.Class, fmt.Sprintf("malformed query %q (%s) accepted", s, iv.Class), map[string]string{"query": s})
			}
		}
	}
}

// c11Histories: the parser must not remember: groups of queries that differ only INSIDE a quoted string or a
// back-quoted name (amount and kind of white space, letter case, a trailing blank) are parsed one after the other
// in one process, in every order, and every result is compared with its own denotation.
func c11Histories(c *Ctx) {
	str := func(v string) aArg { return aArg{`"` + v + `"`, v, "String"} }
	fld := func(v string) aArg { return aArg{"`" + v + "`", v, "Field"} }
	g := aArg{"g", "g", "Field"}
	var groups [][]*aQuery
	for _, vals := range [][]string{{"a b", "a  b", "a\tb", " a b", "a b "}, {"Abc", "abc", "ABC"}, {"x,y", "x, y", "x ,y"}} {
		var grp, grp2, grp3 []*aQuery
		for _, v := range vals {
			grp = append(grp, c11Build([]aSel{c11SelItems[0]}, "t", []aCond{{g, "contains", str(v)}}, 0, 0, nil, -1, -1, nil, ""))
			grp2 = append(grp2, c11Build([]aSel{c11SelItems[0]}, "", nil, 0, 0, nil, -1, -1, &aOut{`"` + v + `.csv"`, v + ".csv", false}, ""))
			grp3 = append(grp3, c11Build([]aSel{c11SelItems[0]}, "t", []aCond{{fld(v), "eq", g}}, 0, 0, nil, -1, -1, nil, ""))
		}
		groups = append(groups, grp, grp2)
		if !strings.ContainsAny(strings.Join(vals, ""), " ,\t") {
			groups = append(groups, grp3) // a back-quote escapes one token: no blanks or commas inside (grammar)
		}
	}
	{
		var grp []*aQuery
		for _, v := range []string{"from", "From", "FROM", "select"} {
			grp = append(grp, c11Build([]aSel{c11SelItems[0]}, "t", []aCond{{fld(v), "eq", g}}, 0, 0, nil, -1, -1, nil, ""))
		}
		groups = append(groups, grp)
	}
	var perm func(qs []*aQuery, k int, f func([]*aQuery))
	perm = func(qs []*aQuery, k int, f func([]*aQuery)) {
		if k == len(qs) {
			f(qs)
			return
		}
		for i := k; i < len(qs); i++ {
			qs[k], qs[i] = qs[i], qs[k]
			perm(qs, k+1, f)
			qs[k], qs[i] = qs[i], qs[k]
		}
	}
	for _, grp := range groups {
		if len(grp) > 4 {
			grp = grp[:4]
		}
		perm(grp, 0, func(order []*aQuery) {
			// a fresh parser state for every order: package-level state is re-initialised at the start of a run
			vrt.Run(vrt.Config{MaxSteps: 1 << 40, Horizon: 1000 * time.Hour}, func() {
				args := DefaultArgs()
				args.Logger = "none"
				args.LogLevel = "error"
				StartEnv(source.Client, &args, nil)
				for _, q := range order {
					c11CheckValid(c, q, aSurface{By: true})
					c11CheckValid(c, q, aSurface{By: true, WS: 2})
				}
			})
		})
	}
}

// c11Integers: the NUMBER of an interval or limit clause in every decimal spelling (plain, zero padded as a script's
// %02d / %04d renders it, long), in three clause positions: it denotes its decimal value.
func c11Integers(c *Ctx) {
	if c.Shard != 0 {
		return
	}
	for _, sp := range []struct {
		Text string
		N    int
	}{{"0", 0}, {"7", 7}, {"10", 10}, {"00", 0}, {"007", 7}, {"08", 8}, {"09", 9}, {"010", 10}, {"0010", 10}, {"023", 23}, {"060", 60}, {"0100", 100}, {"0755", 755}, {"123456", 123456}} {
		for _, clause := range []string{"limit", "interval", "LIMIT", "Interval"} {
			for _, tmpl := range []string{"select f %s %s", "select count(f) %s %s group by f", "%s %s select f from T"} {
				q := fmt.Sprintf(tmpl, clause, sp.Text)
				if strings.HasPrefix(tmpl, "%s") {
					q = "select f from T " + clause + " " + sp.Text + " group by f"
				}
				c.Count("int|" + q)
				var p *mapr.Query
				var err error
				var pv interface{}
				func() {
					defer func() { pv = recover() }()
					p, err = mapr.NewQuery(q)
				}()
				in := map[string]string{"query": q}
				switch {
				case pv != nil:
					c.Violation("parser-panic", fmt.Sprintf("query %q: panic %v", q, pv), in)
				case err != nil:
					c.Violation("valid-query-rejected", fmt.Sprintf("valid query %q (the number %s is the decimal number %d) rejected: %v", q, sp.Text, sp.N, err), in)
				case strings.EqualFold(clause, "limit") && p.Limit != sp.N:
					c.Violation("misparsed", fmt.Sprintf("query %q: limit %d, want %d (the decimal number %s)", q, p.Limit, sp.N, sp.Text), in)
				case strings.EqualFold(clause, "interval") && p.Interval != time.Duration(sp.N)*time.Second && !(sp.N == 0 && p.Interval > 0):
					// (interval 0 is replaced by the default interval)
					c.Violation("misparsed", fmt.Sprintf("query %q: interval %v, want %d s (the decimal number %s)", q, p.Interval, sp.N, sp.Text), in)
				}
			}
		}
	}
}

func c11Run(c *Ctx) {
	full := c.Thorough()
	c11Integers(c)
	canon := aSurface{By: true}
	conds := c11Conds()
	// A: clause product, canonical surface
	for _, sel := range c11SelLists(full) {
		for _, table := range []string{"", "t", "Stats"} {
			for _, wh := range c11SmallWheres() {
				if !c.Mine() {
					continue
				}
				if c.Expired() {
					return
				}
				for grp := range c11Groups {
					for ord := 0; ord < 3; ord++ {
						for _, set := range c11Sets {
							for _, iv := range []int{-1, 10} {
								for _, lim := range []int{-1, 23} {
									for _, out := range c11Outs {
										for _, lf := range []string{"", "generickv"} {
											c11CheckValid(c, c11Build(sel, table, wh, grp, ord, set, iv, lim, out, lf), canon)
										}
									}
								}
							}
						}
					}
				}
			}
		}
	}
	// B: every single condition and every ordered pair from a reduced menu, two base queries
	var wheres [][]aCond
	for _, cd := range conds {
		wheres = append(wheres, []aCond{cd})
	}
	step := 7
	if full {
		step = 1
	}
	for i := 0; i < len(conds); i += step {
		for j := 0; j < len(conds); j += 5 {
			wheres = append(wheres, []aCond{conds[i], conds[j]})
		}
	}
	for _, wh := range wheres {
		if !c.Mine() {
			continue
		}
		for as := 0; as < 3; as++ {
			for cs := 0; cs < 3; cs++ {
				sf := aSurface{By: true, AndSep: as, Case: cs}
				c11CheckValid(c, c11Build([]aSel{c11SelItems[0]}, "t", wh, 0, 0, nil, -1, -1, nil, ""), sf)
				c11CheckValid(c, c11Build([]aSel{c11SelItems[1], c11SelItems[2]}, "", wh, 2, 1, c11Sets[4], 10, 23, c11Outs[1], "generickv"), sf)
			}
		}
	}
	// an output file whose NAME is the optional word of its own clause ("append"), in every keyword case and clause
	// order, quoted and bare, with and without append mode: `outfile [append] PATH` counts operands, it does not
	// look at what the path is called
	if c.Shard == 0 {
		for cs := 0; cs < 3; cs++ {
			for ord := 0; ord < 2; ord++ {
				sf := aSurface{By: true, Case: cs, Order: ord}
				for _, out := range []*aOut{{`"append"`, "append", false}, {"append", "append", false}, {`"APPEND"`, "APPEND", false}, {"Append", "Append", false},
					{`"append"`, "append", true}, {"append", "append", true}, {`"by"`, "by", false}, {`"appendix"`, "appendix", false}} {
					c11CheckValid(c, c11Build([]aSel{c11SelItems[0]}, "t", nil, 0, 0, nil, -1, -1, out, ""), sf)
					c11CheckValid(c, c11Build([]aSel{c11SelItems[1], c11SelItems[2]}, "", nil, 2, 1, c11Sets[4], 10, 23, out, "generickv"), sf)
				}
			}
		}
	}
	// C: surface variations on a reduced abstract set
	var base []*aQuery
	for _, sel := range [][]aSel{{c11SelItems[0]}, {c11SelItems[1], c11SelItems[4]}} {
		for _, table := range []string{"", "t"} {
			for _, wh := range c11SmallWheres() {
				for _, grp := range []int{0, 2} {
					for _, ord := range []int{0, 1, 2} {
						for _, set := range [][]aSet{nil, c11Sets[4]} {
							for _, out := range []*aOut{nil, c11Outs[3]} {
								base = append(base, c11Build(sel, table, wh, grp, ord, set, 10, 23, out, "generickv"))
								base = append(base, c11Build(sel, table, wh, grp, ord, set, -1, -1, out, ""))
							}
						}
					}
				}
			}
		}
	}
	for _, q := range base {
		if !c.Mine() {
			continue
		}
		if c.Expired() {
			return
		}
		for ord := 0; ord < 12; ord++ {
			for cs := 0; cs < 3; cs++ {
				for sp := 0; sp < 4; sp++ {
					for _, by := range []bool{true, false} {
						for as := 0; as < 3; as++ {
							c11CheckValid(c, q, aSurface{Order: ord, Case: cs, Sep: sp, By: by, AndSep: as})
						}
						// white-space styles (multi-line queries, tabs, CRLF)
						for ws := 1; ws < 6; ws++ {
							c11CheckValid(c, q, aSurface{Order: ord, Case: cs, Sep: sp, By: by, AndSep: ws % 3, WS: ws})
						}
					}
				}
			}
		}
	}
	if c.Shard == 0 {
		c11CheckInvalid(c)
		q := base[len(base)/2]
		c.Sample(map[string]string{"valid_query": q.render(aSurface{Order: 3, Case: 2, Sep: 2, By: false, AndSep: 1}), "malformed": c11Invalid[5].Query})
	}
}

func init() {
	Register(&Check{
		ID:    "C11",
		Level: "exploration",
		Rule: "output files named like the optional word of their clause (append: quoted, bare, upper case, with/without append mode) x 3 keyword cases x 2 clause orders x 2 base queries; abstract queries are enumerated as a product of clause menus (11 select items and ordered pairs, table, where conditions over every operator x operand kind, " +
			"group, order/rorder, set incl. nested functions, interval, limit, outfile [append], logformat); each is rendered to text and parsed by mapr.NewQuery; " +
			"product A = all clause combinations in canonical surface, B = every single where condition and pairs under 9 surfaces, C = a reduced abstract set under every " +
			"clause order (canonical, reversed, rotations) x keyword case x separator x optional 'by' x 'and' style x white-space style (blank, newline, tab, double blank, CRLF, indented newline); the parsed fields and a one-line evaluation of where/set " +
			"must equal the denotation; the NUMBER of interval and limit in 14 decimal spellings (zero padded, long) x 4 keyword spellings x 3 clause positions denotes its decimal value; 39 malformed classes x 3 spellings must be rejected without panic; plus histories: 8 groups of up to 4 queries that differ only inside a quoted string (white space, letter case, comma) or in the letter case of a back-quoted name parsed in one process in every order, each compared with its own denotation; non-trivial = query has where/set or a non-canonical surface",
		Assumptions: []string{
			"aggregation and function names are written in lower case and string operators get field/quoted operands, float operators get field/number operands (other spellings are ambiguous in the documented grammar and excluded so that the check never demands more than the statement)",
			"empty quoted strings are excluded (ambiguous)",
		},
		Run: func(c *Ctx) {
			if c.Shard == 0 {
				c11Histories(c)
			}
			res := vrt.Run(vrt.Config{MaxSteps: 1 << 40, Horizon: 1000 * time.Hour}, func() {
				args := DefaultArgs()
				args.Logger = "none"
				args.LogLevel = "error"
				StartEnv(source.Client, &args, nil)
				c11Run(c)
			})
			if res.Fail != nil {
				c.Res.HarnessErr = res.Fail.Error()
			}
		},
		Replay: func(c *Ctx, rec *ViolationRec) string {
			var in map[string]string
			jsonUnmarshal(rec.Input, &in)
			var msg string
			func() {
				defer func() {
					if r := recover(); r != nil {
						msg = fmt.Sprintf("panic: %v", r)
					}
				}()
				_, err := mapr.NewQuery(in["query"])
				if strings.HasPrefix(rec.Sig, "malformed-query-accepted") && err == nil {
					msg = "malformed query still accepted"
				}
				if (rec.Sig == "valid-query-rejected" || strings.HasPrefix(rec.Sig, "outfile-append")) && err != nil {
					msg = "still rejected: " + err.Error()
				}
				if rec.Sig == "misparsed" {
					msg = "re-run the check to compare (replay of misparse needs the abstract query)"
				}
			}()
			return msg
		},
	})
}
