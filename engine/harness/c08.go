package harness

import (
	"encoding/json"
	"fmt"
	"os"
	"path/filepath"
	"regexp"
	"sort"
	"strings"
	"syscall"
	"time"

	"github.com/mimecast/dtail/internal/config"
	"github.com/mimecast/dtail/internal/source"
	userserver "github.com/mimecast/dtail/internal/user/server"
	"github.com/mimecast/dtail/verif/vrt"
)

// C08: users read only files their permission rules allow.

type c08Layout struct {
	Root string
	// request path -> resolved absolute path of a regular file ("" = not a readable regular file)
	Resolve map[string]string
	Content map[string]string // resolved path -> content
	Paths   []string
	Globs   map[string][]string // glob -> matched request paths
}

func c08Build() *c08Layout {
	root := Scratch() + "/c08"
	os.RemoveAll(root)
	l := &c08Layout{Root: root, Resolve: map[string]string{}, Content: map[string]string{}, Globs: map[string][]string{}}
	files := map[string]string{
		"pub/a.log": "public a\n", "pub/b.txt": "public b\n", "sec/s.log": "SECRET s\n", "sec/deep/d.log": "SECRET d\n",
		// a directory whose name ends in a line break, followed by what looks like an allowed path
		"sec/x\n" + root + "/pub/leak.log": "SECRET behind a line break\n",
	}
	for rel, c := range files {
		p := filepath.Join(root, rel)
		os.MkdirAll(filepath.Dir(p), 0o755)
		os.WriteFile(p, []byte(c), 0o644)
		l.Content[p] = c
	}
	os.MkdirAll(filepath.Join(root, "pub/subdir"), 0o755)
	sym := func(target, link string) { os.Symlink(target, filepath.Join(root, link)) }
	sym("../sec/s.log", "pub/to-secret.log") // file -> file
	sym("../sec", "pub/secdir")              // dir -> dir
	sym("to-secret.log", "pub/chain1.log")   // link -> link -> file
	sym("chain1.log", "pub/chain2.log")
	sym("nowhere", "pub/dangling.log")
	sym("loop-b.log", "pub/loop-a.log")
	sym("loop-a.log", "pub/loop-b.log")
	sym("../pub/a.log", "sec/to-public.log") // from the secret dir to a public file
	sym("/dev/null", "pub/devnull.log")
	syscall.Mkfifo(filepath.Join(root, "pub/fifo.log"), 0o644)
	r := func(req, resolvedRel string) {
		res := ""
		if resolvedRel != "" {
			res = filepath.Join(root, resolvedRel)
		}
		l.Resolve[req] = res
		l.Paths = append(l.Paths, req)
	}
	R := root
	r(R+"/sec/x\n"+R+"/pub/leak.log", "sec/x\n"+R+"/pub/leak.log")
	r(R+"/pub/a.log", "pub/a.log")
	r(R+"/pub/b.txt", "pub/b.txt")
	r(R+"/sec/s.log", "sec/s.log")
	r(R+"/sec/deep/d.log", "sec/deep/d.log")
	r(R+"/pub/to-secret.log", "sec/s.log")
	r(R+"/pub/secdir/s.log", "sec/s.log")
	r(R+"/pub/secdir/deep/d.log", "sec/deep/d.log")
	r(R+"/pub/chain2.log", "sec/s.log")
	r(R+"/pub/chain1.log", "sec/s.log")
	r(R+"/sec/to-public.log", "pub/a.log")
	r(R+"/pub/../sec/s.log", "sec/s.log")
	r(R+"/sec/../pub/a.log", "pub/a.log")
	r(R+"/pub/./a.log", "pub/a.log")
	r(R+"//pub//a.log", "pub/a.log")
	r("pub/a.log", "pub/a.log") // relative to the server's working directory (= root)
	r("./sec/s.log", "sec/s.log")
	r("pub/../sec/s.log", "sec/s.log")
	r(R+"/pub/dangling.log", "")
	r(R+"/pub/loop-a.log", "")
	r(R+"/pub/fifo.log", "")
	r(R+"/pub/subdir", "")
	r(R+"/pub", "")
	r(R+"/pub/devnull.log", "")
	r(R+"/pub/missing.log", "")
	l.Globs[R+"/pub/*.log"] = nil
	l.Globs[R+"/*/s.log"] = nil
	l.Globs[R+"/p*/../sec/*.log"] = nil
	l.Globs[R+"/pub/secdir/*"] = nil
	l.Globs[R+"/*/*/*.log"] = nil
	return l
}

type c08Rule struct{ Text string }

func c08Rules(root string) []string {
	R := regexp.QuoteMeta(root)
	return []string{
		"^/.*",
		"^" + R + "/pub/",
		"!^" + R + "/sec/",
		`\.log$`,
		`!\.txt$`,
		"^" + R + `/pub/[[:alpha:]]+\.log$`, // bare allow containing ':'
		`![[:alpha:]]+/s\.log$`,             // bare deny containing ':'
		"readfiles:^" + R + "/pub/",
		"readfiles:!^" + R + "/sec/",
		"other:^/.*",
		"^" + R + `/pub/\w+\.log$`, // Perl character class
		"(?i)^" + strings.ToUpper(R) + "/PUB/A\\.", // flag group
		"readfiles:" + `![[:alpha:]]+/d\.log$`,     // typed deny containing ':'
	}
}

// c08Reference: last matching allow/deny rule of type readfiles decides, default deny.
func c08Reference(rules []string, resolved string) bool {
	if resolved == "" {
		return false
	}
	allowed := false
	for _, r := range rules {
		pat := r
		if strings.HasPrefix(r, "readfiles:") {
			pat = strings.TrimPrefix(r, "readfiles:")
		} else if strings.HasPrefix(r, "other:") {
			continue // a different permission type
		}
		neg := strings.HasPrefix(pat, "!")
		if neg {
			pat = pat[1:]
		}
		if regexp.MustCompile(pat).MatchString(resolved) {
			allowed = !neg
		}
	}
	return allowed
}

type c08Case struct {
	Rules   []string `json:"rules"`
	PerUser bool     `json:"per_user_override"`
	Path    string   `json:"requested_path"`
}

func c08Lists(rules []string, n int, f func([]string)) {
	var rec func(cur []string)
	rec = func(cur []string) {
		if len(cur) > 0 {
			f(append([]string{}, cur...))
		}
		if len(cur) == n {
			return
		}
		for _, r := range rules {
			rec(append(cur, r))
		}
	}
	rec(nil)
}

func c08SetRules(rules []string, perUser bool) {
	if perUser {
		config.Server.Permissions.Default = []string{"^/.*"} // must be overridden, not merged
		config.Server.Permissions.Users = map[string][]string{"alice": rules}
	} else {
		config.Server.Permissions.Default = rules
		config.Server.Permissions.Users = map[string][]string{"bob": {"^/.*"}} // another user's rules must not apply
	}
}

func c08Sig(rules []string, got, want bool) string {
	bareColon := false
	for _, r := range rules {
		if !strings.HasPrefix(r, "readfiles:") && !strings.HasPrefix(r, "other:") && strings.Contains(r, ":") {
			bareColon = true
		}
	}
	if bareColon {
		return "bare-rule-containing-colon-misparsed"
	}
	if got && !want {
		return "read-allowed-against-the-rules"
	}
	return "read-denied-against-the-rules"
}

// c08ConfigFiles: the rules as an administrator gives them: in the JSON configuration file, loaded through the real
// start-up path (config.Setup).  Every combination of a Default list (absent = the built-in "^/.*", empty, two lists)
// and an entry for the requesting user (absent, [], null, two lists); another user's generous entry is always there.
// The list that applies is the user's own entry whenever one exists - also an empty one, which allows nothing.
func c08ConfigFiles(c *Ctx, l *c08Layout) {
	if c.Shard != 0 {
		return
	}
	R := regexp.QuoteMeta(l.Root)
	type lst struct {
		present bool
		rules   []string // nil with present = JSON null
		json    string
	}
	mk := func(rs ...string) lst {
		b, _ := json.Marshal(rs)
		return lst{true, rs, string(b)}
	}
	defaults := []lst{{}, mk(), mk("^" + R + "/pub/"), mk("^/.*", "!^"+R+"/sec/")}
	defaults[1].json = "[]"
	own := []lst{{}, {true, nil, "[]"}, {true, nil, "null"}, mk("^" + R + "/sec/"), mk("!^/.*"), mk("^/.*", "!\\.log$")}
	// (key under Permissions.Users, name the user logs in with): the key is looked up exactly as written
	names := [][2]string{{"alice", "alice"}, {"OpsTeam", "OpsTeam"}, {"alice", "Alice"}, {"Alice", "alice"}, {"jdoe", "JDOE"}, {"a-b_c.d", "a-b_c.d"}, {"ALICE", "ALICE"}}
	for ni, nm := range names {
		for di, d := range defaults {
			for oi, o := range own {
				var users []string
				users = append(users, `"bob": ["^/.*"]`)
				if o.present {
					users = append(users, `"`+nm[0]+`": `+o.json)
				}
				perm := `"Users": {` + strings.Join(users, ", ") + `}`
				if d.present {
					perm = `"Default": ` + d.json + `, ` + perm
				}
				cfgText := `{"Server": {"Permissions": {` + perm + `}}}`
				path := WriteScratch(fmt.Sprintf("c08/config-%d-%d-%d.json", ni, di, oi), cfgText)
				args := DefaultArgs()
				args.Logger = "none"
				args.LogLevel = "error"
				args.ConfigFile = path
				config.Setup(source.Server, &args, nil)
				effective := []string{"^/.*"}
				if d.present {
					effective = d.rules
				}
				if o.present && nm[0] == nm[1] {
					effective = o.rules
				}
				u, err := userserver.New(nm[1], "harness")
				for _, p := range l.Paths {
					got := err == nil && u.HasFilePermission(p, "readfiles")
					want := c08Reference(effective, l.Resolve[p])
					key := ""
					if l.Resolve[p] != "" {
						key = "cfg|" + nm[1] + "|" + cfgText + "|" + p
					}
					c.Count(key)
					if got != want {
						sig := "config-file-rules-not-applied"
						c.Violation(sig, fmt.Sprintf("configuration file %s loaded by config.Setup: user %s, requested %q which resolves to %q: permission %v; the list that applies to this user is %q, which says %v",
							strings.ReplaceAll(cfgText, R, "R"), nm[1], strings.Replace(p, l.Root, "R", 1), strings.Replace(l.Resolve[p], l.Root, "R", 1), got, effective, want), c08Case{effective, o.present, p})
						break
					}
				}
			}
		}
	}
}

func c08Run(c *Ctx) {
	l := c08Build()
	if err := os.Chdir(l.Root); err != nil {
		panic(err)
	}
	defer os.Chdir("/")
	rules := c08Rules(l.Root)
	full := c.Thorough()
	n := 3
	if full {
		n = 4
	}
	// A: verdicts of HasFilePermission for the whole product
	c08Lists(rules, n, func(rs []string) {
		if !c.Mine() {
			return
		}
		for _, perUser := range []bool{false, true} {
			c08SetRules(rs, perUser)
			u, err := userserver.New("alice", "harness")
			if err != nil {
				c.Violation("user-creation-failed", err.Error(), rs)
				return
			}
			for _, p := range l.Paths {
				got := u.HasFilePermission(p, "readfiles")
				want := c08Reference(rs, l.Resolve[p])
				key := ""
				if l.Resolve[p] != "" {
					key = fmt.Sprintf("%v|%v|%s", rs, perUser, p)
				}
				c.Count(key)
				if got != want {
					c.Violation(c08Sig(rs, got, want), fmt.Sprintf("rules %q (per-user override: %v), requested %q which resolves to %q: permission %v, the rules say %v",
						rs, perUser, strings.Replace(p, l.Root, "R", 1), strings.Replace(l.Resolve[p], l.Root, "R", 1), got, want), c08Case{rs, perUser, p})
				}
			}
		}
	})
	// B: end to end through a server session, every list of length <= 1 (quick) / 2 (thorough)
	m := 2
	if full {
		m = 3
	}
	var globs []string
	for g := range l.Globs {
		globs = append(globs, g)
	}
	sort.Strings(globs)
	c08Lists(rules, m, func(rs []string) {
		if !c.Mine() || c.Expired() {
			return
		}
		c08SetRules(rs, false)
		reqs := append(append([]string{}, l.Paths...), globs...)
		for ri, req := range reqs {
			for oi, opt := range []string{"", ":serverless=true", ":plain=true", ":quiet=true:serverless=true:plain=true"} {
				// options a client may put into the command word select output modes, never permissions
				if oi > 0 && (ri+len(rs))%3 != 0 {
					continue // the option variants on a third of the requests
				}
				cat := vrt.Make[struct{}]("catLimiter", 4)
				tail := vrt.Make[struct{}]("tailLimiter", 4)
				s := NewServerSession("s", "alice", cat, tail)
				vrt.Go("pump", func() { s.Pump(32 * 1024) })
				s.H.Write(WireCommand("cat" + opt + " " + req + " regex:noop "))
				if !s.Wait(2 * time.Minute) {
					c.Violation("e2e-session-does-not-end", fmt.Sprintf("rules %q, command 'cat%s %s': the session has not ended after two minutes (a read of something that is not a regular file?)", rs, opt, strings.Replace(req, l.Root, "R", 1)), c08Case{rs, false, req + " (options " + opt + ")"})
					s.H.Shutdown()
					continue
				}
				got := map[string]int{}
				if strings.Contains(opt, "plain=true") {
					for _, m := range s.Messages {
						if m != "" && !strings.HasPrefix(m, ".") && !strings.HasPrefix(m, "SERVER|") {
							got[m]++
						}
					}
				}
				for _, m := range s.Lines() {
					f := strings.SplitN(m, "|", 6)
					if len(f) == 6 {
						got[f[5]]++
					}
				}
				// expected content: for a path its file if allowed; for a glob every allowed match
				want := map[string]int{}
				var targets []string
				if _, isGlob := l.Globs[req]; isGlob {
					matches, _ := filepath.Glob(filepath.Clean(req))
					targets = matches
				} else {
					targets = []string{req}
				}
				for _, t := range targets {
					res, known := l.Resolve[t]
					if !known {
						// a glob match: resolve it with the layout's table via its cleaned form
						if ev, err := filepath.EvalSymlinks(t); err == nil {
							if fi, err := os.Lstat(ev); err == nil && fi.Mode().IsRegular() {
								res = ev
							}
						}
					}
					if c08Reference(rs, res) {
						want[l.Content[res]]++
					}
				}
				c.Count("e2e|" + fmt.Sprint(rs) + req + opt)
				vrt.Forget()
				if fmt.Sprint(got) != fmt.Sprint(want) {
					sig := "e2e-" + c08Sig(rs, len(got) > len(want), false)
					c.Violation(sig, fmt.Sprintf("rules %q, command 'cat%s %s': session delivered %v, the rules allow %v", rs, opt, strings.Replace(req, l.Root, "R", 1), got, want), c08Case{rs, false, req + " (options " + opt + ")"})
				}
			}
		}
	})
	c08ConfigFiles(c, l)
	c.Sample(c08Case{Rules: []string{"^/.*", "!^R/sec/"}, Path: "R/pub/chain2.log (symlink -> chain1.log -> to-secret.log -> ../sec/s.log)"})
}

func init() {
	Register(&Check{
		ID:    "C08",
		Level: "exploration",
		Rule: "24 generated JSON configuration files x 7 (configuration key, login name) pairs that differ in letter case or not, loaded by config.Setup; a real directory tree (public and secret files, symlinks file->file, dir->dir, chains of two, dangling, loop, from the secret into the public directory, a FIFO, a directory, a device) and 25 requested paths (one behind a directory name that ends in a line break) (direct, through every symlink kind, " +
			"with '..', '.', '//', relative to the working directory, non-existent) + 5 globs; all ordered rule lists of length <=3 (quick) / <=4 (thorough) over 13 rules (allow, '!' deny, bare rules containing ':' via POSIX classes, Perl classes and flag groups, 'readfiles:' typed, a foreign type), " +
			"as default rules and as per-user override; oracle A: HasFilePermission == reference (own resolution table of the layout, regular-file test, last matching readfiles rule wins, default deny) in both directions; oracle B (all lists of length <=2/<=3): " +
			"a cat command through a real server session (plain, and with the client-settable options serverless/plain/quiet in the command word) delivers exactly the content of the allowed files and nothing of the denied ones; plus 24 JSON configuration files loaded through the real start-up path (Default list absent/empty/two lists x the user's own entry absent/[]/null/three lists, next to another user's generous entry): the verdict for all 25 paths follows the list that applies to the user (the own entry whenever one exists, also an empty one); non-trivial = the request resolves to a regular file",
		Assumptions: []string{
			"ordinary users only (the scheduled/continuous background users' blanket permission is a documented design decision)",
			"OS-level ACL check compiled out (default build)",
		},
		Run: func(c *Ctx) {
			res := vrt.Run(vrt.Config{MaxSteps: 1 << 50, Horizon: 1 << 60}, func() {
				args := DefaultArgs()
				args.Logger = "none"
				args.LogLevel = "error"
				StartEnv(source.Server, &args, nil)
				c08Run(c)
			})
			if res.Fail != nil {
				c.Res.HarnessErr = res.Fail.Error()
			}
		},
		Replay: func(c *Ctx, rec *ViolationRec) string {
			return "re-run bin/check C08 quick (rules and requested path are in the message)"
		},
	})
}

var _ = time.Second
