package harness

import (
	"crypto/ed25519"
	"crypto/rand"
	"errors"
	"fmt"
	"net"
	"os"
	"strings"
	"sync"
	"time"

	"github.com/mimecast/dtail/internal/source"
	sshclient "github.com/mimecast/dtail/internal/ssh/client"
	"github.com/mimecast/dtail/verif/explore"
	"github.com/mimecast/dtail/verif/vcontext"
	"github.com/mimecast/dtail/verif/vos"
	"github.com/mimecast/dtail/verif/vrt"
	"golang.org/x/crypto/ssh"
	"golang.org/x/crypto/ssh/knownhosts"
)

// C17: the client talks only to servers whose host key is trusted.

type c17Host struct {
	Name   string
	Server string
	Remote net.Addr
	Key    ssh.PublicKey
}

var (
	c17Keys  []ssh.PublicKey
	c17Hosts []c17Host
)

func c17Init() {
	if c17Keys != nil {
		return
	}
	for i := 0; i < 4; i++ {
		pub, _, err := ed25519.GenerateKey(rand.Reader)
		if err != nil {
			panic(err)
		}
		k, err := ssh.NewPublicKey(pub)
		if err != nil {
			panic(err)
		}
		c17Keys = append(c17Keys, k)
	}
	c17Hosts = []c17Host{
		{"A", "hosta:2222", &net.TCPAddr{IP: net.ParseIP("10.0.0.1"), Port: 2222}, c17Keys[0]},
		{"B", "hostb:2222", &net.TCPAddr{IP: net.ParseIP("10.0.0.2"), Port: 2222}, c17Keys[2]},
	}
	// host C presents a host CERTIFICATE issued by a certificate authority no known-hosts line names (anybody can
	// mint one): x/crypto's lookup fails with an error that is not a *knownhosts.KeyError
	{
		_, caPriv, _ := ed25519.GenerateKey(rand.Reader)
		ca, err := ssh.NewSignerFromKey(caPriv)
		if err != nil {
			panic(err)
		}
		hostPub, _, _ := ed25519.GenerateKey(rand.Reader)
		hk, _ := ssh.NewPublicKey(hostPub)
		cert := &ssh.Certificate{Key: hk, Serial: 1, CertType: ssh.HostCert, KeyId: "hostc", ValidPrincipals: []string{"hostc"}, ValidAfter: 0, ValidBefore: ssh.CertTimeInfinity}
		if err := cert.SignCert(rand.Reader, ca); err != nil {
			panic(err)
		}
		c17Hosts = append(c17Hosts, c17Host{"C(certificate of an unknown CA)", "hostc:2222", &net.TCPAddr{IP: net.ParseIP("10.0.0.3"), Port: 2222}, cert})
	}
}

// the known_hosts line alphabet
func c17Lines() map[string]string {
	c17Init()
	a, b := c17Hosts[0], c17Hosts[1]
	return map[string]string{
		"A:key":      knownhosts.Line([]string{a.Server}, a.Key),
		"A:otherkey": knownhosts.Line([]string{a.Server}, c17Keys[1]),
		"B:key":      knownhosts.Line([]string{b.Server}, b.Key),
		"A:hashed":   knownhosts.Line([]string{knownhosts.HashHostname(knownhosts.Normalize(a.Server))}, a.Key),
		"A,B:multi":  knownhosts.Line([]string{a.Server, b.Server}, a.Key),
		"A:ip":       knownhosts.Line([]string{a.Remote.String()}, a.Key),
		"comment":    "# a comment line",
		"blank":      "",
		"revokedC":   "@revoked * " + strings.SplitN(knownhosts.Line([]string{"x"}, c17Keys[3]), " ", 2)[1],
		"revokedA":   "@revoked * " + strings.SplitN(knownhosts.Line([]string{"x"}, c17Keys[0]), " ", 2)[1], // the key host A presents is REVOKED
		"other":      knownhosts.Line([]string{"unrelated.example:22"}, c17Keys[3]),
	}
}

type c17Params struct {
	File     []string // names of lines
	Contact  []int    // indexes into c17Hosts
	Answer   string   // stdin script
	TrustAll bool
	// Via: "" = NewKnownHostsCallback directly; "key" = through the client's InitSSHAuthMethods with an explicit
	// private key file (-key / DTAIL_SSH_PRIVATE_KEYFILE_PATH); "home" = through InitSSHAuthMethods with the key
	// found at ~/.ssh/id_rsa (no agent)
	Via string
	// CancelMs > 0: the client's context ends that many (virtual) milliseconds after the connections were started,
	// i.e. while unknown hosts are still being collected for the prompt (2 s window) or the prompt waits for an answer
	CancelMs int
	// Reconnect: after the first contact (answered by the first line of the script) the same host is contacted again
	// through the same callback - a tail client re-connecting - and now presents ANOTHER key; the second line of the
	// script answers the second prompt
	Reconnect bool
}

func (p c17Params) String() string {
	s := fmt.Sprintf("known_hosts=%v contact=%v answer=%q trustall=%v", p.File, p.Contact, p.Answer, p.TrustAll)
	if p.Via != "" {
		s += " via=InitSSHAuthMethods/" + p.Via
	}
	if p.CancelMs > 0 {
		s += fmt.Sprintf(" cancel-after=%dms", p.CancelMs)
	}
	if p.Reconnect {
		s += " then-reconnect-with-a-changed-key"
	}
	return s
}

func c17Scenario(p c17Params, idx int) *explore.Scenario {
	c17Init()
	lines := c17Lines()
	var content strings.Builder
	for _, n := range p.File {
		content.WriteString(lines[n] + "\n")
	}
	path := fmt.Sprintf("%s/c17-%d-known_hosts", Scratch(), idx)
	home := ""
	if p.Via != "" {
		home = fmt.Sprintf("%s/c17-home-%d", Scratch(), idx)
		os.MkdirAll(home+"/.ssh", 0o700)
		path = home + "/.ssh/known_hosts"
		if p.Via == "home" {
			if b, err := os.ReadFile(c17KeyFile()); err == nil {
				os.WriteFile(home+"/.ssh/id_rsa", b, 0o600)
			}
		}
	}
	// the user approves iff the first line that is exactly one of the offered answers is y/yes/a/all
	// (details = ask again; anything else, including an empty line, is not an answer: ask again)
	approve := false
	for _, l := range strings.Split(p.Answer, "\n") {
		l = strings.TrimSpace(l)
		if l == "y" || l == "yes" || l == "a" || l == "all" {
			approve = true
			break
		}
		if l == "n" || l == "no" {
			break
		}
	}
	sc := &explore.Scenario{Name: "c17", Params: p.String(), MaxSteps: 200000, Horizon: 5 * time.Minute}
	sc.Run = func(cfg vrt.Config) (string, string, vrt.Result) {
		var out, viol string
		res := vrt.Run(cfg, func() {
			args := DefaultArgs()
			args.Logger = "none"
			args.LogLevel = "error"
			StartEnv(source.Client, &args, nil)
			os.Remove(path + ".tmp")
			if err := os.WriteFile(path, []byte(content.String()), 0o600); err != nil {
				panic(err)
			}
			vos.S.StdinData = p.Answer
			vos.S.StdinHang = p.CancelMs > 0 // the user has not answered (yet)
			// what x/crypto's knownhosts says about each contacted host (trusted base)
			base, err := knownhosts.New(path)
			if err != nil {
				viol = "harness: knownhosts.New: " + err.Error()
				return
			}
			throttle := vrt.Make[struct{}]("throttleCh", 4)
			var kh sshclient.HostKeyCallback
			if p.Via == "" {
				kh, err = sshclient.NewKnownHostsCallback(path, p.TrustAll, throttle)
				if err != nil {
					viol = "NewKnownHostsCallback: " + err.Error()
					return
				}
			} else {
				vrt.SetLabel("env:HOME", home)
				key := ""
				if p.Via == "key" {
					key = c17KeyFile()
				}
				var methods []ssh.AuthMethod
				methods, kh = sshclient.InitSSHAuthMethods(nil, nil, p.TrustAll, throttle, key)
				if len(methods) == 0 {
					viol = "harness: InitSSHAuthMethods returned no authentication method"
					return
				}
			}
			ctx, cancel := vcontext.WithCancel(vcontext.Background())
			vrt.Go("prompter", func() { kh.PromptAddHosts(ctx) })
			cb := kh.Wrap()
			results := vrt.Make[[2]int]("results", len(p.Contact))
			for _, hi := range p.Contact {
				h := c17Hosts[hi]
				hi := hi
				throttle.Send("throttle", struct{}{}) // as ServerConnection.Start does
				vrt.Go("dial-"+h.Name, func() {
					r := 0
					if cb(h.Server, h.Remote, h.Key) == nil {
						r = 1
					}
					throttle.Recv("unthrottle")
					results.Send("result", [2]int{hi, r})
				})
			}
			got := map[int]bool{}
			if p.CancelMs > 0 {
				// shutdown while hosts are waiting for the user's decision: whatever a callback answers from now
				// on, it must not be "trusted" for a host that is neither known nor approved
				vrt.Sleep("before-cancel", time.Duration(p.CancelMs)*time.Millisecond)
				cancel()
				vrt.Sleep("after-cancel", 10*time.Second)
				base2, _ := knownhosts.New(path)
				for results.Len("drain") > 0 {
					r := results.Recv("drain")
					h := c17Hosts[r[0]]
					known := base(h.Server, h.Remote, h.Key) == nil || (base2 != nil && base2(h.Server, h.Remote, h.Key) == nil)
					if r[1] == 1 && !known && !p.TrustAll {
						viol = fmt.Sprintf("the client's context ended %d ms after connecting, before the user answered the prompt: the host-key check of unknown host %s answered 'trusted' (the connection goes ahead and the commands are sent)", p.CancelMs, h.Name)
						return
					}
				}
				out = "cancelled"
				return
			}
			for range p.Contact {
				r := results.Recv("wait")
				got[r[0]] = r[1] == 1
			}
			if p.Reconnect {
				// the re-connect: same host, same callback, but the key presented now is a different one; the second
				// answer of the script is "n", so nothing may be trusted this time
				second := vrt.Make[[2]int]("results2", len(p.Contact))
				for _, hi := range p.Contact {
					h := c17Hosts[hi]
					hi := hi
					throttle.Send("throttle", struct{}{})
					vrt.Go("redial-"+h.Name, func() {
						r := 0
						if cb(h.Server, h.Remote, c17Keys[1-hi]) == nil { // A (key 0) now shows key 1, B (key 2) now shows key 0
							r = 1
						}
						throttle.Recv("unthrottle")
						second.Send("result", [2]int{hi, r})
					})
				}
				for range p.Contact {
					r := second.Recv("wait")
					if r[1] == 1 {
						viol = fmt.Sprintf("host %s was contacted again through the same client and presented a DIFFERENT key; the user answered \"n\" to the second prompt (or was not asked), yet the client proceeds", c17Hosts[r[0]].Name)
					}
				}
				if viol != "" {
					cancel()
					return
				}
			}
			cancel()
			after, _ := os.ReadFile(path)
			var trustedNew []c17Host
			for _, hi := range p.Contact {
				h := c17Hosts[hi]
				known := base(h.Server, h.Remote, h.Key) == nil
				want := known || approve || p.TrustAll
				if got[hi] != want {
					viol = fmt.Sprintf("host %s (known-hosts accepts its key: %v, user approves: %v, trust-all: %v): the client proceeds = %v, want %v", h.Name, known, approve, p.TrustAll, got[hi], want)
					return
				}
				if !got[hi] && !kh.Untrusted(h.Server) {
					viol = fmt.Sprintf("host %s was refused but is not reported as untrusted", h.Name)
					return
				}
				if !known && got[hi] {
					trustedNew = append(trustedNew, h)
				}
			}
			out = fmt.Sprintf("proceed=%v newly_trusted=%d", got, len(trustedNew))
			viol = c17FileOracle(content.String(), string(after), trustedNew, path)
		})
		if res.Fail != nil {
			viol = res.Fail.Error()
			out = "fail:" + res.Fail.Kind
		}
		return out, viol, res
	}
	sc.Filter = func(pt *vrt.Point, alt int) bool {
		switch pt.Infos[alt].Kind {
		case "wgadd", "wgwait":
			return false
		}
		return true
	}
	return sc
}

// c17KeyFile returns the path of a private key file (generated once per process family).
func c17KeyFile() string {
	p := Scratch() + "/c17-id_rsa"
	c17KeyOnce.Do(func() {
		if _, err := os.Stat(p); err != nil {
			tmp := fmt.Sprintf("%s.%d", p, os.Getpid())
			sshclient.GeneratePrivatePublicKeyPairIfNotExists(tmp, 2048)
			os.Rename(tmp, p)
		}
	})
	return p
}

var c17KeyOnce sync.Once

func c17FileOracle(before, after string, trusted []c17Host, path string) string {
	if len(trusted) == 0 {
		if before != after {
			return fmt.Sprintf("no host was newly trusted but the known-hosts file changed from %q to %q", before, after)
		}
		return ""
	}
	// every newly trusted host is accepted by the new file
	db, err := knownhosts.New(path)
	if err != nil {
		return "the rewritten known-hosts file does not parse: " + err.Error()
	}
	related := map[string]bool{}
	newLines := map[string]bool{}
	for _, h := range trusted {
		if e := db(h.Server, h.Remote, h.Key); e != nil {
			// (a revocation line stays in force, and a certificate is never matched by a plain line: there the entry
			// was added, which is all the statement asks for)
			var rev *knownhosts.RevokedError
			if _, isCert := h.Key.(*ssh.Certificate); !isCert && !errors.As(e, &rev) {
				return fmt.Sprintf("host %s was approved but the rewritten known-hosts file does not accept it: %v", h.Name, e)
			}
		}
		related[knownhosts.Normalize(h.Server)] = true
		related[knownhosts.Normalize(h.Remote.String())] = true
		newLines[knownhosts.Line([]string{h.Server}, h.Key)] = true
		newLines[knownhosts.Line([]string{h.Remote.String()}, h.Key)] = true
	}
	split := func(s string) []string {
		s = strings.TrimSuffix(s, "\n")
		if s == "" {
			return nil
		}
		return strings.Split(s, "\n")
	}
	// unrelated old lines survive byte-identical and in order
	var mustKeep []string
	for _, l := range split(before) {
		if !related[strings.SplitN(l, " ", 2)[0]] {
			mustKeep = append(mustKeep, l)
		}
	}
	rest := split(after)
	var others []string
	for _, l := range rest {
		if !newLines[l] {
			others = append(others, l)
		}
	}
	if strings.Join(others, "\n") != strings.Join(mustKeep, "\n") {
		return fmt.Sprintf("existing unrelated known-hosts entries were not preserved: before %q, after (without the new entries) %q, expected %q", split(before), others, mustKeep)
	}
	return ""
}

func c17ParamSets(tier string) (ps []c17Params) {
	names := []string{"A:key", "A:otherkey", "B:key", "A:hashed", "A,B:multi", "A:ip", "comment", "blank", "revokedC", "other", "revokedA"}
	var files [][]string
	n := 2
	if tier == "thorough" {
		n = 3
	}
	var rec func(cur []string)
	rec = func(cur []string) {
		files = append(files, append([]string{}, cur...))
		if len(cur) == n {
			return
		}
		for _, x := range names {
			rec(append(cur, x))
		}
	}
	rec(nil)
	answers := []string{"y\n", "n\n", "a\n", "d\ny\n", "bogus\nn\n", "yes\n", "no\n", "\nn\n", "ye\nn\n", "Y\nno\n", " \nn\n", "nope\nn\n"}
	for _, f := range files {
		for _, contact := range [][]int{{0}, {1}, {0, 1}} {
			for ai, ans := range answers {
				if tier == "quick" && len(f) == 2 && ai > 2 && ai != 7 {
					continue
				}
				ps = append(ps, c17Params{File: f, Contact: contact, Answer: ans})
			}
			ps = append(ps, c17Params{File: f, Contact: contact, Answer: "", TrustAll: true})
			if len(f) <= 1 {
				if len(f) == 0 && len(contact) == 1 {
					// an unknown host, contacted alone: exactly one prompt per round
					// (answer "a" = trust all hosts for the rest of the run, so only y and n are followed by a second prompt)
					ps = append(ps, c17Params{File: f, Contact: contact, Answer: "y\nn\n", Reconnect: true}, c17Params{File: f, Contact: contact, Answer: "yes\nno\n", Reconnect: true},
						c17Params{File: f, Contact: contact, Answer: "n\nn\n", Reconnect: true})
				}
				for _, ms := range []int{500, 1999, 2000, 2500} {
					ps = append(ps, c17Params{File: f, Contact: contact, Answer: "", CancelMs: ms})
				}
			}
			if len(f) <= 1 && len(contact) == 1 {
				// together with / alone: a host that presents a certificate of an unknown authority
				for _, ans := range []string{"y\n", "n\n", "no\n", "bogus\nn\n"} {
					first := []int{2} // with host A in the list: C alone; with host B: C before B
					if contact[0] == 1 {
						first = []int{2, 1}
					}
					ps = append(ps, c17Params{File: f, Contact: first, Answer: ans}, c17Params{File: f, Contact: []int{contact[0], 2}, Answer: ans})
				}
				ps = append(ps, c17Params{File: f, Contact: []int{2}, Answer: "", TrustAll: true})
			}
			if len(f) <= 1 {
				// the same through the client's real initialisation, with each way of finding the private key
				for _, via := range []string{"key", "home"} {
					for _, ans := range []string{"y\n", "n\n"} {
						ps = append(ps, c17Params{File: f, Contact: contact, Answer: ans, Via: via})
					}
					ps = append(ps, c17Params{File: f, Contact: contact, Answer: "", TrustAll: true, Via: via})
				}
			}
		}
	}
	return
}

func init() {
	Register(&Check{
		ID:    "C17",
		Level: "model_checking",
		Rule: "known-hosts files = all sequences of <=2 (quick) / <=3 (thorough) lines over 11 line kinds (entry for A with the right key, with a changed key, entry for B, hashed entry, multi-host entry, IP entry, comment, blank, @revoked line for an unrelated key, @revoked line for the very key host A presents, unrelated host); a third host that presents a host certificate issued by an authority no line names (alone and next to A or B); " +
			"contacted servers {A}, {B}, {A,B} with their current keys; the callback obtained directly and (files of <=1 line) through the client's InitSSHAuthMethods with an explicit private key file and with ~/.ssh/id_rsa; a re-connect of the same client to a host that now presents another key (second prompt answered n); the client's context ending 500..2500 ms after connecting with no answer on stdin (no callback may then answer 'trusted' for an unknown host); answers y / n / a / d+y / garbage+n / yes / no / empty line+n / 'ye'+n / 'Y'+no / blank+n / 'nope'+n, and trust-all; the real Wrap() callbacks run as goroutines against the real PromptAddHosts loop (2 s batching timer in virtual time, scripted stdin), " +
			"all schedules with <=1 deviation; oracle: proceed <=> x/crypto knownhosts accepts the key OR the user approved OR trust-all; a refused host is reported untrusted; the file afterwards accepts every newly trusted host, keeps every unrelated old line byte-identical " +
			"and in order, adds nothing else, and is unchanged when nobody was newly trusted",
		Assumptions: []string{
			"golang.org/x/crypto/ssh/knownhosts (host-key matching, hashing, revocation) is trusted and used as the reference for 'matches the known-hosts file'",
			"logger 'none' (with the stdout logger dlog.Pause blocks until another goroutine logs)",
		},
		Run: func(c *Ctx) {
			for i, p := range c17ParamSets(c.Tier) {
				if !c.Mine() {
					continue
				}
				if c.Expired() {
					return
				}
				sc := c17Scenario(p, c.Shard*1000000+i)
				sc.Agg = fmt.Sprintf("c17 contact=%v", p.Contact)
				sub := *c
				sub.Shard, sub.NShards = 0, 1
				sub.Explore(sc, 1, func(msg string, v *explore.Violation) string {
					switch {
					case strings.HasPrefix(msg, "panic"):
						return "panic"
					case strings.HasPrefix(msg, "deadlock"):
						return "deadlock"
					case strings.Contains(msg, "answered 'trusted'"):
						return "unknown-host-trusted-when-the-client-shuts-down"
					case strings.Contains(msg, "the client proceeds"):
						return "wrong-trust-decision"
					case strings.Contains(msg, "not preserved"):
						return "unrelated-entries-not-preserved"
					case strings.Contains(msg, "does not accept it"):
						return "approved-host-not-recorded"
					case strings.Contains(msg, "file changed"):
						return "file-changed-without-approval"
					}
					return "other"
				})
				if len(p.File) == 2 && p.File[0] == "A:otherkey" && p.Answer == "y\n" && len(p.Contact) == 2 {
					c.Sample(map[string]interface{}{"scenario": p.String()})
				}
			}
		},
		Replay: func(c *Ctx, rec *ViolationRec) string {
			return "re-run bin/check C17 quick (the scenario is in the message)"
		},
	})
}
