package harness

import (
	"bytes"
	"encoding/base64"
	"fmt"
	"io"
	"strings"
	"time"

	"github.com/mimecast/dtail/internal/protocol"
	"github.com/mimecast/dtail/internal/server/handlers"
	userserver "github.com/mimecast/dtail/internal/user/server"
	"github.com/mimecast/dtail/verif/vrt"
)

// WireCommand frames a command the way the dtail clients do.
func WireCommand(cmd string) []byte {
	return []byte(fmt.Sprintf("protocol %s base64 %s;", protocol.ProtocolCompat,
		base64.StdEncoding.EncodeToString([]byte(cmd))))
}

// Session is a server-side session driven directly by the harness (the
// harness plays the client side of the byte stream).
type Session struct {
	H        handlers.Handler
	Name     string
	Messages []string // complete messages received (delimiter removed)
	EOF      bool
	AckSyn   bool
	acked    bool
	buf      bytes.Buffer
	Done     *vrt.Chan[struct{}]
}

// NewServerSession creates a real server handler for user.
func NewServerSession(name, userName string, cat, tail *vrt.Chan[struct{}]) *Session {
	u, err := userserver.New(userName, "harness")
	if err != nil {
		panic(err)
	}
	return &Session{H: handlers.NewServerHandler(u, cat, tail), Name: name, AckSyn: true,
		Done: vrt.Make[struct{}]("sessionDone:"+name, 0)}
}

// Pump reads from the handler until EOF, like the io.Copy loop of the
// transport, splitting the byte stream into messages.  readSize is the size
// of the transport buffer.
func (s *Session) Pump(readSize int) {
	p := make([]byte, readSize)
	for {
		n, err := s.H.Read(p)
		for _, b := range p[:n] {
			if b == protocol.MessageDelimiter {
				m := s.buf.String()
				s.buf.Reset()
				s.Messages = append(s.Messages, m)
				if s.AckSyn && !s.acked && strings.HasPrefix(m, ".syn close connection") {
					// what the real client handler does: acknowledge once, then end its side
					s.acked = true
					s.H.Write(WireCommand(".ack close connection"))
					s.H.Shutdown()
				}
				continue
			}
			s.buf.WriteByte(b)
		}
		if err == io.EOF {
			s.EOF = true
			s.Done.Close("pump")
			return
		}
		if err != nil {
			vrt.Failf("harness", "unexpected read error %v", err)
			return
		}
	}
}

// Wait waits (in virtual time) until the session has ended; it returns false if it has not after d.
func (s *Session) Wait(d time.Duration) bool {
	t := vrt.After("session-wait", d)
	return vrt.Select("session-wait", false, s.Done.RecvCase(), t.RecvCase()) == 0
}

// Lines returns the REMOTE line messages (non-plain: field 5.. content).
func (s *Session) Lines() (out []string) {
	for _, m := range s.Messages {
		if strings.HasPrefix(m, "REMOTE|") {
			out = append(out, m)
		}
	}
	return
}
