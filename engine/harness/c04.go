package harness

import (
	"fmt"
	"os"
	"path/filepath"
	"strings"
	"time"

	"github.com/mimecast/dtail/internal/config"
	"github.com/mimecast/dtail/internal/io/fs"
	"github.com/mimecast/dtail/internal/io/line"
	"github.com/mimecast/dtail/internal/lcontext"
	"github.com/mimecast/dtail/internal/regex"
	"github.com/mimecast/dtail/internal/source"
	"github.com/mimecast/dtail/verif/explore"
	"github.com/mimecast/dtail/verif/vcontext"
	"github.com/mimecast/dtail/verif/vos"
	"github.com/mimecast/dtail/verif/vrt"
)

// C04: following a file delivers every appended line once, in order.

type c04Params struct {
	Initial string   // content present before anything starts (newline terminated or empty)
	Chunks  []string // the writer's write() calls
	Regex   string   // "" = no-op
	Cap     int      // capacity of the delivery queue
	Late    bool     // consumer receives only at the end
	Pause   time.Duration
	// MidDrain > 0: (with Late) after write number MidDrain the writer waits a
	// second and the consumer drains the queue once, then writing continues:
	// lines dropped before the drain must show in the percentage of lines after it.
	MidDrain int
	// Hist > 0 (long history): the first chunk holds Hist lines, which an eager consumer receives; then the consumer
	// stops, the writer appends the second chunk (more lines than the queue holds, so the surplus is dropped), the
	// consumer resumes a second later and the last chunk follows.  Canonical schedule only (long executions).
	Hist int
	// Second: a second followed file whose reader delivers into the SAME queue (all files of a session share one);
	// the writer appends Second[i] to it right after Chunks[i]
	Second []string
	// M > 0: the server's MaxLineLength (lines longer than M are delivered in pieces of M bytes, each a line of its own)
	M int
}

func (p c04Params) String() string {
	if p.Hist > 0 {
		return fmt.Sprintf("history of %d delivered lines, then %d lines into a stopped queue of capacity %d, then 2 lines", p.Hist, strings.Count(p.Chunks[1], "\n"), p.Cap)
	}
	s := fmt.Sprintf("initial=%q chunks=%q regex=%q cap=%d late=%v pause=%v middrain=%d", p.Initial, p.Chunks, p.Regex, p.Cap, p.Late, p.Pause, p.MidDrain)
	if len(p.Second) > 0 {
		s += fmt.Sprintf(" second-file-chunks=%q", p.Second)
	}
	if p.M > 0 {
		s += fmt.Sprintf(" maxlinelength=%d", p.M)
	}
	return s
}

type c04Line struct {
	Text   string
	Perc   int
	Count  uint64 // the running number the line is labelled with
	Source string
}

func c04Scenario(p c04Params, idx int) *explore.Scenario {
	path := fmt.Sprintf("%s/c04-%d.log", Scratch(), idx)
	sc := &explore.Scenario{Name: "c04", Params: p.String(), MaxSteps: 300000, Horizon: 5 * time.Minute, Demotion: true}
	sc.Run = func(cfg vrt.Config) (string, string, vrt.Result) {
		var out, viol string
		res := vrt.Run(cfg, func() {
			args := DefaultArgs()
			args.Logger = "none"
			args.LogLevel = "error"
			StartEnv(source.Server, &args, func() {
				if p.M > 0 {
					config.Server.MaxLineLength = p.M
				}
			})
			if err := os.WriteFile(path, []byte(p.Initial), 0o644); err != nil {
				panic(err)
			}
			vos.S.Visible = true
			re := regex.NewNoop()
			if p.Regex != "" {
				r, err := regex.New(p.Regex, regex.Default)
				if err != nil {
					panic(err)
				}
				re = r
			}
			lines := vrt.Make[*line.Line]("lines", p.Cap)
			msgs := vrt.Make[string]("serverMessages", 10)
			ctx, cancel := vcontext.WithCancel(vcontext.Background())
			readerDone := vrt.Make[struct{}]("readerDone", 0)
			vrt.Go("tail-reader", func() {
				fs.NewTailFile(path, "f", msgs).Start(ctx, lcontext.LContext{}, lines, re)
				readerDone.Close("readerDone")
			})
			path2 := path + ".second"
			reader2Done := vrt.Make[struct{}]("reader2Done", 0)
			if len(p.Second) > 0 {
				if err := os.WriteFile(path2, nil, 0o644); err != nil {
					panic(err)
				}
				vrt.Go("tail-reader-2", func() {
					fs.NewTailFile(path2, "g", msgs).Start(ctx, lcontext.LContext{}, lines, re)
					reader2Done.Close("reader2Done")
				})
			}
			var got []c04Line
			recv := func(l *line.Line) {
				got = append(got, c04Line{l.Content.String(), l.TransmittedPerc, l.Count, l.SourceID})
			}
			consumerStop := vrt.Make[struct{}]("consumerStop", 0)
			consumerDone := vrt.Make[struct{}]("consumerDone", 0)
			histReached := vrt.Make[struct{}]("histReached", 0)
			histResume := vrt.Make[struct{}]("histResume", 0)
			if !p.Late {
				vrt.Go("consumer", func() {
					defer consumerDone.Close("consumerDone")
					for {
						if p.Hist > 0 && len(got) == p.Hist {
							histReached.Send("hist", struct{}{})
							histResume.Recv("hist")
						}
						cl, cs := lines.RecvCase(), consumerStop.RecvCase()
						if vrt.Select("consumer", false, cl, cs) == 1 {
							return
						}
						recv(cl.V)
					}
				})
			}
			midReq := vrt.Make[struct{}]("midDrainRequest", 0)
			midAck := vrt.Make[struct{}]("midDrainDone", 0)
			writerDone := vrt.Make[struct{}]("writerDone", 0)
			vrt.Go("writer", func() {
				defer writerDone.Close("writerDone")
				f, err := vos.OpenFile(path, vos.O_WRONLY|vos.O_APPEND, 0o644)
				if err != nil {
					panic(err)
				}
				var f2 *vos.File
				if len(p.Second) > 0 {
					if f2, err = vos.OpenFile(path2, vos.O_WRONLY|vos.O_APPEND, 0o644); err != nil {
						panic(err)
					}
					defer f2.Close()
				}
				if p.Hist > 0 {
					// the history must be appended after the follow began
					for {
						if _, began := vos.S.SeekEnd[path]; began {
							break
						}
						vrt.Sleep("wait-for-follow", 10*time.Millisecond)
					}
				}
				for i, c := range p.Chunks {
					if i > 0 && p.Pause > 0 {
						vrt.Sleep("writer-pause", p.Pause)
					}
					if p.Hist > 0 && i == 0 {
						// the history arrives in pieces that fit into the queue, a poll interval apart
						ls := strings.SplitAfter(c, "\n")
						for len(ls) > 0 {
							n := p.Cap
							if n > len(ls) {
								n = len(ls)
							}
							f.Write([]byte(strings.Join(ls[:n], "")))
							ls = ls[n:]
							vrt.Sleep("history-piece", 250*time.Millisecond)
						}
					} else {
						f.Write([]byte(c))
					}
					if f2 != nil && i < len(p.Second) {
						f2.Write([]byte(p.Second[i]))
					}
					if p.Hist > 0 && i == 0 {
						histReached.Recv("hist") // every line of the history has been delivered
					}
					if p.Hist > 0 && i == 1 {
						vrt.Sleep("queue-fills", time.Second)
						histResume.Send("hist", struct{}{})
						vrt.Sleep("consumer-drains", time.Second)
					}
					if p.MidDrain > 0 && i+1 == p.MidDrain {
						vrt.Sleep("before-mid-drain", time.Second)
						midReq.Send("mid", struct{}{})
						midAck.Recv("mid")
					}
				}
				f.Close()
			})
			if p.MidDrain > 0 && p.MidDrain <= len(p.Chunks) {
				midReq.Recv("mid")
				for lines.Len("drain") > 0 {
					recv(lines.Recv("drain"))
				}
				midAck.Send("mid", struct{}{})
			}
			writerDone.Recv("wait-writer")
			// the writer is done: give the follower time to see everything (polls every 100 ms)
			vrt.Sleep("settle", 2*time.Second)
			if p.Late {
				for lines.Len("drain") > 0 {
					recv(lines.Recv("drain"))
				}
			} else {
				consumerStop.Close("stop")
				consumerDone.Recv("wait-consumer")
				for lines.Len("drain") > 0 {
					recv(lines.Recv("drain"))
				}
			}
			cancel()
			readerDone.Recv("wait-reader")
			if len(p.Second) > 0 {
				reader2Done.Recv("wait-reader-2")
			}
			x, began := vos.S.SeekEnd[path]
			if !began {
				viol = "the follow never positioned itself at the end of the file"
				return
			}
			if len(p.Second) == 0 {
				out, viol = c04Oracle(p, got, x, 0)
				return
			}
			// two files on one queue: each file's lines are judged on their own; the other file's lines occupy the queue too
			x2, began2 := vos.S.SeekEnd[path2]
			if !began2 {
				viol = "the follow of the second file never positioned itself at the end of the file"
				return
			}
			var g1, g2 []c04Line
			for _, l := range got {
				if l.Source == "g" {
					g2 = append(g2, l)
				} else {
					g1 = append(g1, l)
				}
			}
			p2 := p
			p2.Initial, p2.Chunks = "", p.Second
			n1, n2 := strings.Count(strings.Join(p.Chunks, ""), "\n"), strings.Count(strings.Join(p.Second, ""), "\n")
			out, viol = c04Oracle(p, g1, x, n2)
			if viol == "" {
				var o2 string
				o2, viol = c04Oracle(p2, g2, x2, n1)
				if viol != "" {
					viol = "second file: " + viol
				}
				out += " | " + o2
			}
		})
		if res.Fail != nil {
			viol = res.Fail.Error()
			out = "fail:" + res.Fail.Kind
		}
		return out, viol, res
	}
	sc.Filter = func(pt *vrt.Point, alt int) bool {
		if pt.Alts[alt].Kind != vrt.AltRun {
			return true
		}
		switch pt.Infos[alt].Kind {
		case "wgadd", "wgwait", "lock", "unlock":
			return false
		}
		return true
	}
	return sc
}

func c04Oracle(p c04Params, got []c04Line, x int64, othersOffered int) (string, string) {
	full := p.Initial + strings.Join(p.Chunks, "")
	if int(x) > len(full) {
		return "bad", fmt.Sprintf("follow began at offset %d beyond the final size %d", x, len(full))
	}
	after := full[x:]
	// complete lines appended after the follow began
	var want []string
	fragment := ""
	rest := after
	if x > 0 && full[x-1] != '\n' {
		// the follow began in the middle of a line: its remainder is not a complete appended line
		if i := strings.IndexByte(rest, '\n'); i >= 0 {
			fragment = rest[:i+1]
			rest = rest[i+1:]
		} else {
			rest = ""
		}
	}
	for {
		i := strings.IndexByte(rest, '\n')
		if i < 0 {
			break // a partial line is held until it is completed
		}
		want = append(want, rest[:i+1])
		rest = rest[i+1:]
	}
	if p.M > 0 && fragment != "" {
		// (the follow began inside a line the writer had half written: the pieces of its remainder are not judged in
		// the over-long-line scenarios; the schedules in which the follow begins first are)
		return fmt.Sprintf("x=%d began inside a line", x), ""
	}
	if p.M > 0 {
		// the statement's only permitted difference: a line break after every M-th byte of an over-long line, i.e. the
		// line arrives as consecutive pieces, every byte kept
		var pieces []string
		for _, l := range want {
			for _, pc := range strings.SplitAfter(string(c01Split([]byte(l), p.M)), "\n") {
				if pc != "" {
					pieces = append(pieces, pc)
				}
			}
		}
		want = pieces
	}
	selected := func(l string) bool {
		return p.Regex == "" || strings.Contains(strings.TrimSuffix(l, "\n"), p.Regex)
	}
	var wantSel []string
	var wantNum []uint64 // running number of each selected line among the lines read since the follow began
	for i, l := range want {
		if selected(l) {
			wantSel = append(wantSel, l)
			n := uint64(i + 1)
			if fragment != "" {
				n++ // the remainder of the straddling line was read as line 1
			}
			wantNum = append(wantNum, n)
		}
	}
	// delivered lines (minus an optional leading fragment) must be a subsequence of wantSel
	offered := len(wantSel) + othersOffered
	if fragment != "" {
		offered++ // the remainder of a straddling line also occupies the queue
	}
	match := func(g []c04Line) (string, string) {
		j := 0
		dropped := false
		drops := 0
		for _, d := range g {
			k := j
			for k < len(wantSel) && wantSel[k] != d.Text {
				k++
			}
			if k == len(wantSel) {
				return "bad", fmt.Sprintf("follow began at offset %d; delivered %q which is not the next complete appended line (expected one of %q, already consumed %d); all delivered: %v", x, d.Text, wantSel[j:], j, got)
			}
			if k > j {
				dropped = true
				drops += k - j
			}
			if d.Count != wantNum[k] {
				return "bad", fmt.Sprintf("follow began at offset %d; %q is line %d of the lines read since the follow began but is labelled with running number %d (%d line(s) were dropped before it); delivered: %v", x, d.Text, wantNum[k], d.Count, drops, got)
			}
			if dropped && d.Perc >= 100 {
				return "bad", fmt.Sprintf("follow began at offset %d; %d line(s) before %q were not delivered, yet it reports transmission percentage %d; delivered: %v, appended: %q", x, k-j, d.Text, d.Perc, got, wantSel)
			}
			if d.Perc >= 100 {
				dropped = false
			}
			j = k + 1
		}
		drops += len(wantSel) - j
		if drops > 0 && !(p.Cap < offered) {
			return "bad", fmt.Sprintf("follow began at offset %d; %d of the appended lines %q were not delivered although the queue (capacity %d) can never have been full; delivered: %v", x, drops, wantSel, p.Cap, got)
		}
		return fmt.Sprintf("x=%d delivered=%d/%d", x, len(g), len(wantSel)), ""
	}
	out, viol := match(got)
	if viol != "" && fragment != "" && len(got) > 0 && got[0].Text == fragment {
		// the remainder of the line the follow began in may be delivered first
		return match(got[1:])
	}
	return out, viol
}

// c04Rotation: a follow that has been running for a while survives log rotation: the followed file is truncated
// in place (copytruncate) or renamed away and re-created at t = 5 s; lines appended to the path 8 s later (well
// after the follower's 3 s truncation check and the 2 s re-open) are delivered once and in order.  A whole server
// session is used because the re-open is done by the session's read command.
func c04Rotation(c *Ctx) {
	for _, mode := range []string{"copytruncate", "rename-and-create"} {
		for _, at := range []int{1, 5, 7} {
			mode, at := mode, at
			path := fmt.Sprintf("%s/c04-rot-%d-%s-%d.log", Scratch(), c.Shard, mode, at)
			sc := &explore.Scenario{Name: "c04-rotation", Params: fmt.Sprintf("%s at t=%ds", mode, at), Agg: "c04-rotation", MaxSteps: 500000, Horizon: 10 * time.Minute, Demotion: true}
			sc.Run = func(cfg vrt.Config) (string, string, vrt.Result) {
				var viol, out string
				res := vrt.Run(cfg, func() {
					args := DefaultArgs()
					args.Logger = "none"
					args.LogLevel = "error"
					StartEnv(source.Server, &args, nil)
					os.Remove(path + ".1")
					if err := os.WriteFile(path, []byte("old1\nold2\nold3\n"), 0o644); err != nil {
						panic(err)
					}
					cat := vrt.Make[struct{}]("catLimiter", 2)
					tail := vrt.Make[struct{}]("tailLimiter", 2)
					s := NewServerSession("follower", "verifuser", cat, tail)
					vrt.Go("pump", func() { s.Pump(32 * 1024) })
					s.H.Write(WireCommand("tail " + path + " regex:noop "))
					appendLines := func(text string) {
						f, err := os.OpenFile(path, os.O_WRONLY|os.O_APPEND, 0o644)
						if err != nil {
							panic(err)
						}
						f.Write([]byte(text))
						f.Close()
					}
					vrt.Sleep("follow", time.Second/2)
					appendLines("before1\n")
					vrt.Sleep("until-rotation", time.Duration(at)*time.Second-time.Second/2)
					if mode == "copytruncate" {
						os.Truncate(path, 0)
					} else {
						os.Rename(path, path+".1")
						os.WriteFile(path, nil, 0o644)
					}
					vrt.Sleep("after-rotation", 8*time.Second)
					appendLines("after1\n")
					vrt.Sleep("gap", time.Second)
					appendLines("after2\nafter3\n")
					vrt.Sleep("deliver", 3*time.Second)
					s.H.Shutdown()
					s.Done.Recv("wait")
					var texts []string
					for _, m := range s.Lines() {
						if f := strings.SplitN(m, "|", 6); len(f) == 6 {
							texts = append(texts, strings.TrimSuffix(f[5], "\n"))
						}
					}
					out = strings.Join(texts, ",")
					var after []string
					for _, t := range texts {
						if strings.HasPrefix(t, "after") {
							after = append(after, t)
						}
						if strings.HasPrefix(t, "old") {
							viol = fmt.Sprintf("content that was in the file before the follow began was delivered: %q (all: %v)", t, texts)
						}
					}
					if viol == "" && strings.Join(after, ",") != "after1,after2,after3" {
						viol = fmt.Sprintf("%s at t=%d s, three lines appended 8-9 s later: delivered %v, want each of after1, after2, after3 once and in order (all delivered: %v)", mode, at, after, texts)
					}
				})
				if res.Fail != nil {
					return "fail:" + res.Fail.Kind, res.Fail.Error(), res
				}
				return out, viol, res
			}
			sc.Filter = func(pt *vrt.Point, alt int) bool {
				if pt.Alts[alt].Kind != vrt.AltRun {
					return true
				}
				switch pt.Infos[alt].Kind {
				case "wgadd", "wgwait", "lock", "unlock":
					return false
				}
				return true
			}
			c.Explore(sc, 1, func(msg string, v *explore.Violation) string {
				switch {
				case strings.HasPrefix(msg, "panic"):
					return "panic"
				case strings.HasPrefix(msg, "deadlock"):
					return "deadlock"
				case strings.Contains(msg, "before the follow began"):
					return "old-content-delivered"
				}
				return "lines-after-rotation-not-delivered"
			})
		}
	}
}

// c04LongFollow: a follow that lasts 12 s (four of the follower's 3 s checks) with NO rotation; the followed path is
// the file itself, a symbolic link to it (current.log -> app-2026-10-05.log), a chain of two links, or a relative
// path; a line is appended every 700 ms.  Every line is delivered once and in order.
func c04LongFollow(c *Ctx) {
	for _, kind := range []string{"regular", "symlink", "symlink-chain", "relative-symlink"} {
		kind := kind
		target := fmt.Sprintf("%s/c04-long-%d-%s-app-2026-10-05.log", Scratch(), c.Shard, kind)
		path := target
		sc := &explore.Scenario{Name: "c04-long-follow", Params: "followed path: " + kind, Agg: "c04-long-follow", MaxSteps: 1000000, Horizon: 10 * time.Minute, Demotion: true}
		sc.Run = func(cfg vrt.Config) (string, string, vrt.Result) {
			var viol, out string
			res := vrt.Run(cfg, func() {
				args := DefaultArgs()
				args.Logger = "none"
				args.LogLevel = "error"
				StartEnv(source.Server, &args, nil)
				if err := os.WriteFile(target, []byte("old1\nold2\n"), 0o644); err != nil {
					panic(err)
				}
				link := strings.TrimSuffix(target, "app-2026-10-05.log") + "current.log"
				os.Remove(link)
				os.Remove(link + ".2")
				switch kind {
				case "symlink":
					os.Symlink(target, link)
					path = link
				case "relative-symlink":
					os.Symlink(filepath.Base(target), link)
					path = link
				case "symlink-chain":
					os.Symlink(target, link+".2")
					os.Symlink(link+".2", link)
					path = link
				}
				cat := vrt.Make[struct{}]("catLimiter", 2)
				tail := vrt.Make[struct{}]("tailLimiter", 2)
				s := NewServerSession("follower", "verifuser", cat, tail)
				vrt.Go("pump", func() { s.Pump(32 * 1024) })
				s.H.Write(WireCommand("tail " + path + " regex:noop "))
				vrt.Sleep("follow", time.Second/2)
				var want []string
				for i := 1; i <= 17; i++ {
					f, err := os.OpenFile(target, os.O_WRONLY|os.O_APPEND, 0o644)
					if err != nil {
						panic(err)
					}
					l := fmt.Sprintf("line%02d", i)
					f.Write([]byte(l + "\n"))
					f.Close()
					want = append(want, l)
					vrt.Sleep("writer", 700*time.Millisecond)
				}
				vrt.Sleep("deliver", 3*time.Second)
				s.H.Shutdown()
				s.Done.Recv("wait")
				var texts []string
				for _, m := range s.Lines() {
					if f := strings.SplitN(m, "|", 6); len(f) == 6 {
						texts = append(texts, strings.TrimSuffix(f[5], "\n"))
					}
				}
				out = fmt.Sprintf("%d lines", len(texts))
				if strings.Join(texts, ",") != strings.Join(want, ",") {
					viol = fmt.Sprintf("a follow of a %s path over 12 s, one line appended every 700 ms, nothing rotated, an eager consumer: delivered %v, want each of the %d appended lines once and in order", kind, texts, len(want))
				}
			})
			if res.Fail != nil {
				return "fail:" + res.Fail.Kind, res.Fail.Error(), res
			}
			return out, viol, res
		}
		sc.Filter = func(pt *vrt.Point, alt int) bool {
			if pt.Alts[alt].Kind != vrt.AltRun {
				return true
			}
			switch pt.Infos[alt].Kind {
			case "wgadd", "wgwait", "lock", "unlock":
				return false
			}
			return true
		}
		c.Explore(sc, 0, func(msg string, v *explore.Violation) string {
			switch {
			case strings.HasPrefix(msg, "panic"):
				return "panic"
			case strings.HasPrefix(msg, "deadlock"):
				return "deadlock"
			}
			return "appended-lines-lost-in-a-long-follow"
		})
	}
}

// c04ManyRotations: one follow lives through a dozen rotations (a daily rotated log followed for two weeks): after
// every one of them the lines appended 8 s later are delivered.  Canonical schedule (a long execution).
func c04ManyRotations(c *Ctx) {
	path := fmt.Sprintf("%s/c04-manyrot-%d.log", Scratch(), c.Shard)
	const rounds = 12
	sc := &explore.Scenario{Name: "c04-many-rotations", Params: fmt.Sprintf("%d rotations (truncate in place), 10 s apart", rounds), Agg: "c04-rotation", MaxSteps: 2000000, Horizon: 30 * time.Minute}
	sc.Run = func(cfg vrt.Config) (string, string, vrt.Result) {
		var viol, out string
		res := vrt.Run(cfg, func() {
			args := DefaultArgs()
			args.Logger = "none"
			args.LogLevel = "error"
			StartEnv(source.Server, &args, nil)
			if err := os.WriteFile(path, []byte("old\n"), 0o644); err != nil {
				panic(err)
			}
			cat := vrt.Make[struct{}]("catLimiter", 2)
			tail := vrt.Make[struct{}]("tailLimiter", 2)
			s := NewServerSession("follower", "verifuser", cat, tail)
			vrt.Go("pump", func() { s.Pump(32 * 1024) })
			s.H.Write(WireCommand("tail " + path + " regex:noop "))
			vrt.Sleep("follow", time.Second)
			for r := 1; r <= rounds; r++ {
				os.Truncate(path, 0)
				vrt.Sleep("after-rotation", 8*time.Second)
				f, err := os.OpenFile(path, os.O_WRONLY|os.O_APPEND, 0o644)
				if err != nil {
					panic(err)
				}
				fmt.Fprintf(f, "after rotation %d\n", r)
				f.Close()
				vrt.Sleep("deliver", 2*time.Second)
			}
			s.H.Shutdown()
			s.Done.Recv("wait")
			got := map[string]int{}
			for _, m := range s.Lines() {
				if f := strings.SplitN(m, "|", 6); len(f) == 6 {
					got[strings.TrimSuffix(f[5], "\n")]++
				}
			}
			for r := 1; r <= rounds; r++ {
				if n := got[fmt.Sprintf("after rotation %d", r)]; n != 1 {
					viol = fmt.Sprintf("one follow across %d rotations of its file: the line appended 8 s after rotation %d was delivered %d times, want once (delivered: %v)", rounds, r, n, got)
					return
				}
			}
			out = fmt.Sprintf("%d lines", len(got))
		})
		if res.Fail != nil {
			return "fail:" + res.Fail.Kind, res.Fail.Error(), res
		}
		return out, viol, res
	}
	c.Explore(sc, 0, func(msg string, v *explore.Violation) string {
		if strings.HasPrefix(msg, "panic") {
			return "panic"
		}
		return "lines-after-rotation-not-delivered"
	})
}

func c04Compositions(s string, maxParts int) (out [][]string) {
	var rec func(start int, cur []string)
	rec = func(start int, cur []string) {
		if start == len(s) {
			out = append(out, append([]string{}, cur...))
			return
		}
		if len(cur) == maxParts-1 {
			out = append(out, append(append([]string{}, cur...), s[start:]))
			return
		}
		for end := start + 1; end <= len(s); end++ {
			rec(end, append(cur, s[start:end]))
		}
	}
	rec(0, nil)
	return
}

func c04ParamSets(tier string) (ps []c04Params, d int) {
	texts := []string{"a\n", "a\nbb\n", "é\nbb\n", "a\nbb\né\n"}
	maxParts := 2
	if tier == "thorough" {
		texts = []string{"a\n", "bb\n", "é\n", "a\nbb\n", "é\nbb\n", "bb\na\né\n", "a\nbb"}
		maxParts = 3
	}
	for _, t := range texts {
		for _, chunks := range c04Compositions(t, maxParts) {
			for _, init := range []string{"", "old\n"} {
				ps = append(ps, c04Params{Initial: init, Chunks: chunks, Cap: 100})
			}
			if tier == "thorough" || len(chunks) == 2 {
				ps = append(ps, c04Params{Initial: "old\n", Chunks: chunks, Cap: 1, Late: true})
				ps = append(ps, c04Params{Initial: "", Chunks: chunks, Regex: "a", Cap: 100})
				ps = append(ps, c04Params{Initial: "", Chunks: chunks, Cap: 100, Pause: 150 * time.Millisecond})
			}
			if len(chunks) == 2 {
				// the second write lands at the instant of the follower's periodic (3 s) truncation check
				ps = append(ps, c04Params{Initial: "old\n", Chunks: chunks, Cap: 100, Pause: 3 * time.Second})
			}
			if len(chunks) == 2 && strings.Count(chunks[0], "\n") >= 2 {
				ps = append(ps, c04Params{Initial: "old\n", Chunks: chunks, Cap: 1, Late: true, MidDrain: 1})
			}
		}
	}
	// lines longer than MaxLineLength (2, 3 bytes) whose split position falls on a character boundary or inside a
	// multi-byte character: the pieces carry exactly the appended bytes
	for _, t := range []string{"aé\n", "éé\n", "ééa\nbb\n", "abc\né\n", "aaaa\n"} {
		for _, chunks := range c04Compositions(t, 2) {
			if tier != "thorough" && len(chunks) == 2 && len(chunks[0])%2 == 0 {
				continue
			}
			for _, m := range []int{2, 3} {
				ps = append(ps, c04Params{Initial: "old\n", Chunks: chunks, Cap: 100, M: m})
			}
		}
	}
	// two followed files deliver into one queue of capacity 1 (the consumer drains once in the middle and at the end)
	ps = append(ps, c04Params{Initial: "old\n", Chunks: []string{"a\n", "bb\n"}, Second: []string{"x\n", "y\n"}, Cap: 1, Late: true, MidDrain: 1},
		c04Params{Initial: "old\n", Chunks: []string{"a\nbb\n", "c\n"}, Second: []string{"x\n", "y\nz\n"}, Cap: 2, Late: true, MidDrain: 1},
		c04Params{Initial: "", Chunks: []string{"a\n", "bb\n"}, Second: []string{"x\n", "y\n"}, Cap: 100})
	// long histories: a single drop after hundreds of delivered lines must still show in the percentage
	for _, h := range []int{30, 120, 250, 450} {
		for _, cp := range []int{4, 100} {
			for _, surplus := range []int{1, 3} {
				var a, b strings.Builder
				for i := 0; i < h; i++ {
					fmt.Fprintf(&a, "h%d\n", i)
				}
				for i := 0; i < cp+surplus; i++ {
					fmt.Fprintf(&b, "q%d\n", i)
				}
				ps = append(ps, c04Params{Initial: "old\n", Chunks: []string{a.String(), b.String(), "last1\nlast2\n"}, Cap: cp, Hist: h})
			}
		}
	}
	return ps, 2
}

func init() {
	Register(&Check{
		ID:    "C04",
		Level: "model_checking",
		Rule: "stateless exploration of all schedules within a deviation bound of the real TailFile reader following a real file while a writer goroutine appends and a consumer receives: appended text of 1-3 lines over {a, bb, é} " +
			"in every composition into <=2 (quick) / <=3 (thorough) write() calls (splits inside a line and inside the 2-byte character), initial content empty or 'old\\n', filter regex none/'a', delivery queue capacity 100 with an eager consumer or 1 with a consumer that only " +
			"receives at the end, optional 150 ms writer pause; lines longer than a MaxLineLength of 2 or 3 bytes whose split position falls inside a multi-byte character (the pieces carry exactly the appended bytes); two followed files delivering into one shared queue (capacity 1, 2, 100); a whole tail session whose file is rotated (truncated in place / renamed and re-created) 1, 5 or 7 s into the follow, lines appended 8 s later; one follow across 12 rotations; a 12 s follow without rotation (a line every 700 ms) of the file itself, of a symbolic link to it, of a chain of two links and of a relative link; plus (canonical schedule) histories of 30..450 delivered lines followed by 1 or 3 lines dropped at a stopped consumer (capacity 4 and 100); file opens, reads and writes are scheduling points; oracle against the offset at which the follow began (observed at its Seek): delivered lines are exactly / a subsequence of the complete " +
			"lines appended after that offset, unmodified and in order, nothing older, a gap only with a full queue and then the next delivered line has TransmittedPerc < 100",
		Assumptions: []string{
			"truncation and rotation of the followed file only in the dedicated rotation scenarios, whose oracle is limited to lines appended 8 s or more after the rotation (the follower notices a rotation at its next 3 s check and re-opens 2 s later; lines appended in between are outside the statement)",
			"virtual time advances only when no goroutine is runnable; the follower's 100 ms poll and 3 s truncation check run in virtual time",
			"a write(2) is atomic with respect to a read(2) of the same file",
		},
		QuickBudget: 240 * time.Second,
		Scenarios: func(tier string) (out []*explore.Scenario) {
			ps, _ := c04ParamSets(tier)
			for i, p := range ps {
				out = append(out, c04Scenario(p, i))
			}
			return
		},
		Run: func(c *Ctx) {
			c04Rotation(c)
			if c.Shard == 0 {
				c04ManyRotations(c)
			}
			if c.Shard == 1%c.NShards {
				sub := *c // (one execution per scenario: not sharded any further)
				sub.Shard, sub.NShards = 0, 1
				c04LongFollow(&sub)
			}
			ps, d := c04ParamSets(c.Tier)
			if c.Thorough() {
				d = 3
			}
			for i, p := range ps {
				if c.Expired() {
					return
				}
				dd := d
				if c.Thorough() && len(p.Chunks) > 2 {
					dd = 2
				}
				if p.Hist > 0 {
					dd = 0
				}
				sc := c04Scenario(p, c.Shard*100000+i)
				sc.Agg = fmt.Sprintf("c04 cap=%d late=%v regex=%q pause=%v middrain=%v history=%v", p.Cap, p.Late, p.Regex, p.Pause, p.MidDrain > 0, p.Hist > 0)
				sub := *c
				sub.Explore(sc, dd, func(msg string, v *explore.Violation) string {
					switch {
					case strings.HasPrefix(msg, "panic"):
						return "panic"
					case strings.HasPrefix(msg, "deadlock"):
						return "deadlock"
					case strings.Contains(msg, "not the next complete appended line"):
						return "wrong-or-duplicated-line-delivered"
					case strings.Contains(msg, "yet it reports"):
						return "drop-not-signalled"
					case strings.Contains(msg, "can never have been full"):
						return "appended-line-lost"
					}
					return "other"
				})
				if i == 3 {
					c.Sample(map[string]interface{}{"scenario": p.String(), "deviation_bound": dd})
				}
			}
		},
		Replay: func(c *Ctx, rec *ViolationRec) string {
			for _, tier := range []string{"quick", "thorough"} {
				ps, _ := c04ParamSets(tier)
				for i, p := range ps {
					if fmt.Sprintf("%q", p.String()) == string(rec.Params) {
						sc := c04Scenario(p, 900000+i)
						sc.Policy = vrt.Policy(rec.Policy)
						sc.Demotion = rec.Demotion
						_, v, _, div := explore.Replay(sc, rec.Choices)
						if div != "" {
							return "replay diverged: " + div
						}
						return v
					}
				}
			}
			return "unknown scenario " + string(rec.Params)
		},
	})
}
