package harness

import (
	"fmt"
	"os"
	"sort"
	"strings"
	"time"

	"github.com/mimecast/dtail/internal/mapr"
	"github.com/mimecast/dtail/internal/source"
	"github.com/mimecast/dtail/verif/explore"
	"github.com/mimecast/dtail/verif/vos"
	"github.com/mimecast/dtail/verif/vrt"
)

// C15: a mapreduce outfile is never observable half-written.

// fsState is the content of the four files WriteResult touches ("\x00absent" = no file).
type fsState struct {
	Out, Tmp, Query, QueryTmp string
	// Link: the outfile path is a symbolic link (latest.csv -> result-of-today.csv); Out is what a reader of the path sees
	Link bool
}

const absent = "\x00absent"

func (s fsState) key() string {
	return s.Out + "\x01" + s.Tmp + "\x01" + s.Query + "\x01" + s.QueryTmp + fmt.Sprint("\x01", s.Link)
}

func c15Read(p string) string {
	b, err := os.ReadFile(p)
	if err != nil {
		return absent
	}
	return string(b)
}

func c15Write(p, content string) {
	if content == absent {
		os.Remove(p)
		return
	}
	if err := os.WriteFile(p, []byte(content), 0o644); err != nil {
		panic(err)
	}
}

// c15Run is one client run: `interim` interim reports followed by the final
// one, killed before mutating file-system operation `crashAt` (0 = never).
type c15Run struct {
	Append  bool `json:"append"`
	Rows    int  `json:"rows"` // 0,1,2: which result set
	Interim int  `json:"interim_reports"`
	CrashAt int  `json:"killed_before_fs_operation"`            // 0 = run completes
	FailAt  int  `json:"write_error_at_fs_operation,omitempty"` // that write stores half of its data and fails (disk full)
	// Spell: another text of a query with the same result: 1 = a trailing clause " limit 1000" (the base text is a
	// strict prefix of it), 2 = " limit 2000" (same length as 1, different text)
	Spell int `json:"query_spelling,omitempty"`
}

const c15Large = 600

func c15Query(path string, r c15Run) string {
	q := "select k,count(k) group by k outfile "
	if r.Append {
		q += "append "
	}
	q += path
	if r.Rows == 2 {
		q = "select k,count(k),sum(v) group by k order by count(k) outfile "
		if r.Append {
			q += "append "
		}
		q += path
	}
	if r.Rows == 3 {
		q = "select k,sum(v) group by k order by sum(v) limit 1000 outfile "
		if r.Append {
			q += "append "
		}
		q += path
	}
	switch r.Spell {
	case 1:
		q += " limit 1000"
	case 2:
		q += " limit 2000"
	}
	return q
}

func c15Expected(r c15Run) (header, body string) {
	switch r.Rows {
	case 0:
		return "k,count(k)\n", ""
	case 1:
		return "k,count(k)\n", "a,3\n"
	case 3:
		// a result larger than any 4 KiB buffer on the way: 600 groups, largest sum first
		var sb strings.Builder
		for i := c15Large - 1; i >= 0; i-- {
			fmt.Fprintf(&sb, "g%03d,%d.000000\n", i, i+1)
		}
		return "k,sum(v)\n", sb.String()
	default:
		return "k,count(k),sum(v)\n", "b,2,7.000000\na,1,1.500000\n"
	}
}

// c15Exec performs the run on the real code; it returns the number of
// mutating operations performed and whether the run was killed.
func c15Exec(path string, r c15Run) (ops int, killed bool, oplog []string, err error) {
	qs := c15Query(path, r)
	query, qerr := mapr.NewQuery(qs)
	if qerr != nil {
		return 0, false, nil, qerr
	}
	global := mapr.NewGlobalGroupSet()
	fill := func(upto int) {
		g := mapr.NewGroupSet()
		switch r.Rows {
		case 1:
			s := g.GetSet("a")
			s.Aggregate("k", mapr.Last, "a", false)
			for i := 0; i < upto; i++ {
				s.Aggregate("count(k)", mapr.Count, "a", false)
			}
			s.Samples = upto
		case 3:
			for i := 0; i < c15Large; i++ {
				if upto < 2 && i >= c15Large/2 {
					break // the interim report holds half of the groups
				}
				k := fmt.Sprintf("g%03d", i)
				s := g.GetSet(k)
				s.Aggregate("k", mapr.Last, k, false)
				s.Aggregate("sum(v)", mapr.Sum, fmt.Sprint(i+1), false)
				s.Samples = 1
			}
		case 2:
			s := g.GetSet("a")
			s.Aggregate("k", mapr.Last, "a", false)
			s.Aggregate("count(k)", mapr.Count, "a", false)
			s.Aggregate("sum(v)", mapr.Sum, "1.5", false)
			s.Samples = 1
			if upto > 1 {
				t := g.GetSet("b")
				t.Aggregate("k", mapr.Last, "b", false)
				t.Aggregate("count(k)", mapr.Count, "b", false)
				t.Aggregate("count(k)", mapr.Count, "b", false)
				t.Aggregate("sum(v)", mapr.Sum, "3", false)
				t.Aggregate("sum(v)", mapr.Sum, "4", false)
				t.Samples = 2
			}
		}
		global.InitSet()
		if merr := global.Merge(query, g); merr != nil {
			panic(merr)
		}
	}
	st := vos.Reset()
	st.CrashAt = r.CrashAt
	st.FailAt = r.FailAt
	func() {
		defer func() {
			if x := recover(); x != nil {
				if _, ok := x.(vos.CrashSentinel); ok {
					killed = true
					return
				}
				panic(x)
			}
		}()
		// what MaprClient.reportResults does in cumulative mode
		for i := 0; i < r.Interim; i++ {
			fill(1)
			if e := global.WriteResult(query, false); e != nil {
				err = e
				return
			}
		}
		fill(3)
		err = global.WriteResult(query, true)
	}()
	return vos.S.Ops, killed, vos.S.OpLog, err
}

type c15Node struct {
	st      fsState
	history []c15Run
	// complete outfile contents that have legitimately existed on this path
	legit map[string]bool
	// query texts used on this path
	queries map[string]bool
}

func c15Check(c *Ctx, maxRuns int) {
	dir := Scratch() + fmt.Sprintf("/c15-%d", c.Shard)
	os.MkdirAll(dir, 0o755)
	path := dir + "/out.csv"
	target := dir + "/result-of-today.csv"
	files := func() fsState {
		fi, err := os.Lstat(path)
		return fsState{c15Read(path), c15Read(path + ".tmp"), c15Read(path + ".query"), c15Read(path + ".query.tmp"), err == nil && fi.Mode()&os.ModeSymlink != 0}
	}
	restore := func(s fsState) {
		os.Remove(path)
		os.Remove(target)
		if s.Link {
			c15Write(target, s.Out) // (absent: a dangling link)
			if err := os.Symlink(target, path); err != nil {
				panic(err)
			}
		} else {
			c15Write(path, s.Out)
		}
		c15Write(path+".tmp", s.Tmp)
		c15Write(path+".query", s.Query)
		c15Write(path+".query.tmp", s.QueryTmp)
	}
	pre := "k,count(k)\nz,9\n" // a complete outfile left by an earlier, unrelated query
	roots := []fsState{{Out: absent, Tmp: absent, Query: absent, QueryTmp: absent}, {Out: pre, Tmp: absent, Query: "select k,count(k) group by k outfile " + path, QueryTmp: absent},
		// the outfile path is a symbolic link to the earlier complete result, or a link left dangling
		{Out: pre, Tmp: absent, Query: "select k,count(k) group by k outfile " + path, QueryTmp: absent, Link: true}, {Out: absent, Tmp: absent, Query: absent, QueryTmp: absent, Link: true}}
	var variants []c15Run
	for _, app := range []bool{false, true} {
		for _, rows := range []int{1, 2, 0, 3} {
			for _, in := range []int{0, 1} {
				variants = append(variants, c15Run{Append: app, Rows: rows, Interim: in})
				if rows == 1 {
					// the same query in two other spellings: repeated runs against one outfile differ in the query text
					// only (longer, shorter, same length)
					variants = append(variants, c15Run{Append: app, Rows: rows, Interim: in, Spell: 1}, c15Run{Append: app, Rows: rows, Interim: in, Spell: 2})
				}
			}
		}
	}
	seen := map[string]bool{}
	var frontier []*c15Node
	for _, r := range roots {
		n := &c15Node{st: r, legit: map[string]bool{}, queries: map[string]bool{}}
		if r.Out != absent {
			n.legit[r.Out] = true
			n.queries[r.Query] = true
		}
		frontier = append(frontier, n)
		seen["0|"+r.key()] = true
	}
	states, transitions := len(frontier), 0
	defer func() { // (also when the budget ends the search early)
		c.Res.Extra["states"] = float64(states)
		c.Res.Extra["transitions"] = float64(transitions)
	}()
	item := 0
	for depth := 1; depth <= maxRuns; depth++ {
		var next []*c15Node
		for _, n := range frontier {
			for _, v := range variants {
				if c.Expired() {
					return
				}
				if v.Rows == 3 && depth > 1 {
					continue // the large result set: as the first run of a history only (cost)
				}
				// number of crash points of this run from this state
				restore(n.st)
				total, _, _, err := c15Exec(path, v)
				if err != nil {
					c.Violation("write-result-error", fmt.Sprintf("history %+v then %+v: %v", n.history, v, err), append(n.history, v))
					continue
				}
				// a write error (disk full, quota) at every file-system operation of the run: the program sees the error
				// and gives up; what it leaves behind must satisfy the same invariant as after a kill
				for k := 1; k <= total; k++ {
					item++
					if item%c.NShards != c.Shard {
						continue
					}
					run := v
					run.FailAt = k
					restore(n.st)
					_, _, oplog, err := c15Exec(path, run)
					if err == nil {
						continue // operation k is not a write
					}
					transitions++
					after := files()
					hist := append(append([]c15Run{}, n.history...), run)
					c.Count(fmt.Sprintf("%v", hist))
					legit := map[string]bool{}
					for s := range n.legit {
						legit[s] = true
					}
					queries := map[string]bool{}
					for s := range n.queries {
						queries[s] = true
					}
					queries[c15Query(path, run)] = true
					if d := c15Oracle(n.st, after, run, true, legit, queries, path); d != "" {
						c.Violation("write-error-"+c15Sig(d), fmt.Sprintf("history %s (the write at fs-op %d stores half of its data and fails with 'no space left on device'; WriteResult returned %v): %s\n  file-system operations of the last run: %v\n  outfile before %q, after %q",
							c15Hist(hist), k, err, d, oplog, show(n.st.Out), show(after.Out)), hist)
					}
				}
				for k := 0; k <= total; k++ { // k = 0: completes; k >= 1: killed before operation k
					item++
					if depth == 1 && item%c.NShards != c.Shard {
						continue
					}
					run := v
					run.CrashAt = k
					restore(n.st)
					_, killed, oplog, err := c15Exec(path, run)
					transitions++
					after := files()
					hist := append(append([]c15Run{}, n.history...), run)
					key := ""
					if k > 0 {
						key = fmt.Sprintf("%v", hist)
					}
					c.Count(key)
					if c.Res.Evaluations%256 == 0 {
						vrt.Forget()
					}
					if err != nil && !killed {
						c.Violation("write-result-error", fmt.Sprintf("history %+v: %v", hist, err), hist)
						continue
					}
					if k > 0 && !killed {
						c.Res.HarnessErr = fmt.Sprintf("crash point %d of %d did not fire for %+v", k, total, hist)
						return
					}
					legit := map[string]bool{}
					for s := range n.legit {
						legit[s] = true
					}
					queries := map[string]bool{}
					for s := range n.queries {
						queries[s] = true
					}
					queries[c15Query(path, run)] = true
					if d := c15Oracle(n.st, after, run, killed, legit, queries, path); d != "" {
						c.Violation(c15Sig(d), fmt.Sprintf("history %s: %s\n  file-system operations of the last run: %v\n  outfile before %q, after %q; .query after %q",
							c15Hist(hist), d, oplog, show(n.st.Out), show(after.Out), show(after.Query)), hist)
					}
					if after.Out != absent && !run.Append && !killed {
						legit[after.Out] = true
					}
					if run.Append && after.Out != absent {
						legit[after.Out] = true // whatever an append-mode run leaves is what later runs must preserve
					}
					if after.Out != absent && after.Out == n.st.Out {
						legit[after.Out] = true
					}
					sk := fmt.Sprintf("%d|%s", depth, after.key())
					if !seen[sk] {
						seen[sk] = true
						states++
						if depth < maxRuns && run.Rows != 3 {
							next = append(next, &c15Node{st: after, history: hist, legit: legit, queries: queries})
						}
					}
				}
			}
		}
		frontier = next
		if c.Expired() {
			break
		}
	}
	os.RemoveAll(dir)
}

func show(s string) string {
	if s == absent {
		return "<absent>"
	}
	return s
}

func c15Hist(h []c15Run) string {
	var parts []string
	for _, r := range h {
		m := "replace"
		if r.Append {
			m = "append"
		}
		s := fmt.Sprintf("[%s rows=%d interim=%d", m, r.Rows, r.Interim)
		if r.Spell > 0 {
			s += fmt.Sprintf(" query-text-variant=%d", r.Spell)
		}
		if r.CrashAt > 0 {
			s += fmt.Sprintf(" KILLED before fs-op %d", r.CrashAt)
		}
		if r.FailAt > 0 {
			s += fmt.Sprintf(" WRITE ERROR at fs-op %d", r.FailAt)
		}
		parts = append(parts, s+"]")
	}
	return strings.Join(parts, " -> ")
}

func c15Oracle(before, after fsState, run c15Run, killed bool, legit, queries map[string]bool, path string) string {
	header, body := c15Expected(run)
	full := header + body
	// .query is never partial
	if after.Query != absent && !queries[after.Query] {
		return fmt.Sprintf(".query holds %q which is not the complete text of any query run so far", after.Query)
	}
	if !killed && after.Query != c15Query(path, run) {
		return fmt.Sprintf("after a completed run .query holds %q, not the text of the query that was run: %q", show(after.Query), c15Query(path, run))
	}
	if !run.Append {
		switch {
		case after.Out == before.Out && (killed || after.Out == full):
			// untouched (a run killed before the final rename, or an identical result)
		case after.Out == absent:
			if before.Out != absent {
				return "the outfile existed before the run and is gone"
			}
		case after.Out == full:
			if after.Query != c15Query(path, run) {
				return fmt.Sprintf("the outfile holds the new result but .query holds %q", show(after.Query))
			}
		default:
			return fmt.Sprintf("the outfile holds %q which is neither absent, nor the earlier content %q, nor the complete new result %q", after.Out, show(before.Out), full)
		}
		if !killed && after.Out != full {
			return fmt.Sprintf("after a completed run the outfile holds %q, want the complete final result %q", show(after.Out), full)
		}
		return ""
	}
	// append mode
	old := before.Out
	if old == absent {
		old = ""
	}
	cur := after.Out
	if cur == absent {
		cur = ""
	}
	if !strings.HasPrefix(cur, old) {
		return fmt.Sprintf("append mode altered earlier content: before %q, after %q", old, cur)
	}
	if !killed {
		// the header is written exactly once: the file starts with one complete header line
		first := cur
		if i := strings.IndexByte(cur, '\n'); i >= 0 {
			first = cur[:i+1]
		}
		if !c15Headers[first] {
			return fmt.Sprintf("after a completed append run the file does not start with a complete header line: first line %q, whole file %q (a killed earlier run left %q)", first, cur, old)
		}
		nh := 0
		for _, l := range strings.SplitAfter(cur, "\n") {
			if l == header {
				nh++
			}
		}
		if nh > 1 {
			return fmt.Sprintf("the header line appears %d times: %q", nh, cur)
		}
		if !strings.HasSuffix(cur, body) {
			return fmt.Sprintf("after a completed append run the file does not end with the new rows %q: %q", body, cur)
		}
	}
	return ""
}

var c15Headers = map[string]bool{"k,sum(v)\n": true, "k,count(k)\n": true, "k,count(k),sum(v)\n": true}

func c15Sig(d string) string {
	switch {
	case strings.Contains(d, "does not start with a complete header line"):
		return "append-header-torn-by-kill-never-rewritten"
	case strings.Contains(d, ".query holds"):
		return "query-file-partial-or-wrong"
	case strings.Contains(d, "neither absent"):
		return "outfile-observable-half-written"
	case strings.Contains(d, "is gone"):
		return "outfile-vanished"
	case strings.Contains(d, "altered earlier content"):
		return "append-altered-earlier-rows"
	case strings.Contains(d, "appears"):
		return "header-written-more-than-once"
	case strings.Contains(d, "after a completed run the outfile"):
		return "final-result-not-in-place"
	}
	return "other"
}

// c15Concurrent: the periodic reporter's interim write and the final write of
// the same client can be requested at the same moment (reportResults(false) from
// the interval goroutine, reportResults(true) when the session ends).  All
// schedules within the bound, file-system operations being scheduling points.
func c15Concurrent(c *Ctx, appendMode bool, d int) {
	dir := Scratch() + fmt.Sprintf("/c15c-%d-%v", c.Shard, appendMode)
	os.MkdirAll(dir, 0o755)
	path := dir + "/out.csv"
	run := c15Run{Append: appendMode, Rows: 2}
	header, body := c15Expected(run)
	sc := &explore.Scenario{Name: "c15-concurrent-writers", Params: fmt.Sprintf("append=%v", appendMode), MaxSteps: 100000, Horizon: time.Hour, Demotion: true}
	sc.Run = func(cfg vrt.Config) (string, string, vrt.Result) {
		var out, viol string
		os.Remove(path)
		os.Remove(path + ".tmp")
		os.Remove(path + ".query")
		os.Remove(path + ".query.tmp")
		if !appendMode {
			cfg.Invariant = func() string {
				if cur := c15Read(path); cur != absent && cur != header+body {
					return fmt.Sprintf("the outfile is observable half-written: %q", cur)
				}
				return ""
			}
		}
		res := vrt.Run(cfg, func() {
			args := DefaultArgs()
			args.Logger = "none"
			args.LogLevel = "error"
			StartEnv(source.Client, &args, nil)
			vos.S.Visible = true
			query, err := mapr.NewQuery(c15Query(path, run))
			if err != nil {
				panic(err)
			}
			global := mapr.NewGlobalGroupSet()
			g := mapr.NewGroupSet()
			a := g.GetSet("a")
			a.Aggregate("k", mapr.Last, "a", false)
			a.Aggregate("count(k)", mapr.Count, "a", false)
			a.Aggregate("sum(v)", mapr.Sum, "1.5", false)
			a.Samples = 1
			b := g.GetSet("b")
			b.Aggregate("k", mapr.Last, "b", false)
			b.Aggregate("count(k)", mapr.Count, "b", false)
			b.Aggregate("count(k)", mapr.Count, "b", false)
			b.Aggregate("sum(v)", mapr.Sum, "3", false)
			b.Aggregate("sum(v)", mapr.Sum, "4", false)
			b.Samples = 2
			if err := global.Merge(query, g); err != nil {
				panic(err)
			}
			done := vrt.Make[error]("done", 2)
			vrt.Go("interim-report", func() { done.Send("done", global.WriteResult(query, false)) })
			vrt.Go("final-report", func() { done.Send("done", global.WriteResult(query, true)) })
			for i := 0; i < 2; i++ {
				if e := done.Recv("wait"); e != nil {
					viol = "WriteResult failed: " + e.Error()
				}
			}
			cur := c15Read(path)
			out = cur
			if viol != "" {
				return
			}
			if !appendMode && cur != header+body {
				viol = fmt.Sprintf("after an interim and a final report requested at the same time the outfile holds %q, want the complete result %q", show(cur), header+body)
			}
			if appendMode {
				if !strings.HasPrefix(cur, header) || strings.Count(cur, header) != 1 {
					viol = fmt.Sprintf("append mode: the header must be written exactly once, first; file: %q", cur)
				} else {
					rest := strings.TrimPrefix(cur, header)
					for rest != "" {
						if !strings.HasPrefix(rest, body) {
							viol = fmt.Sprintf("append mode: rows of the two reports are interleaved or torn: %q", cur)
							break
						}
						rest = strings.TrimPrefix(rest, body)
					}
				}
			}
			if q := c15Read(path + ".query"); viol == "" && q != c15Query(path, run) {
				viol = fmt.Sprintf(".query holds %q", show(q))
			}
		})
		if res.Fail != nil {
			viol = res.Fail.Error()
			out = "fail:" + res.Fail.Kind
		}
		return out, viol, res
	}
	c.Explore(sc, d, func(msg string, v *explore.Violation) string {
		switch {
		case strings.Contains(msg, "half-written"), strings.Contains(msg, "want the complete result"):
			return "outfile-corrupted-by-concurrent-reports"
		case strings.Contains(msg, "append mode"):
			return "append-outfile-corrupted-by-concurrent-reports"
		case strings.HasPrefix(msg, "panic"):
			return "panic"
		}
		return "other"
	})
	os.RemoveAll(dir)
}

func init() {
	Register(&Check{
		ID:    "C15",
		Level: "fault_enumeration",
		Rule: "explicit-state search over file-system states (content of outfile, outfile.tmp, .query, .query.tmp): from {nothing, a complete outfile of an earlier query, an outfile path that is a symbolic link to such a file, a dangling link} every run variant (replace/append x 4 result sets (empty, 1 row, 2 rows, and - as the first run of a history - 600 rows = larger than any 4 KiB buffer) x 0/1 interim report + final report; the 1-row query also in two other spellings of the same query - a longer text of which the base text is a strict prefix, and one of the same length - so that repeated runs against one outfile differ in nothing but the query text, " +
			"the call pattern of MaprClient.reportResults in cumulative mode) is executed on the real GlobalGroupSet.WriteResult over a recording file system, once to completion, once killed before EVERY mutating file-system operation and once with a write error (half of the data stored, then 'no space left on device') at every write " +
			"(the file system is frozen, deferred clean-up has no effect); resulting states are de-duplicated and expanded to histories of 2 (quick) / 3 (thorough) runs; the invariant is evaluated on every state (incl.: after every completed run, in both modes, .query holds exactly the text of the query that ran); plus: an interim and a final report of one client requested at the same moment (replace and append mode), all schedules within 2 (quick) / 3 (thorough) deviations with file-system operations as scheduling points, invariant: the outfile is never observable half-written and ends complete; non-trivial = a history containing a kill",
		Assumptions: []string{
			"one WriteString/Rename/OpenFile = one system call; a kill inside a single write(2) and power-loss reordering are not modelled",
			"canonical schedule (WriteResult is sequential under the group set's semaphore)",
		},
		QuickBudget: 240 * time.Second,
		Run: func(c *Ctx) {
			res := vrt.Run(vrt.Config{MaxSteps: 1 << 50, Horizon: 1 << 60}, func() {
				args := DefaultArgs()
				args.Logger = "none"
				args.LogLevel = "error"
				StartEnv(source.Client, &args, nil)
				n := 2
				if c.Thorough() {
					n = 3
				}
				c15Check(c, n)
				c.Sample(map[string]interface{}{"history": c15Hist([]c15Run{{Append: false, Rows: 1, Interim: 1, CrashAt: 7}, {Append: false, Rows: 2}}),
					"meaning": "run 1 killed before its 7th mutating fs operation, then run 2 to completion; invariant checked after each"})
			})
			if res.Fail != nil {
				c.Res.HarnessErr = res.Fail.Error()
			}
			d := 2
			if c.Thorough() {
				d = 3
			}
			c15Concurrent(c, false, d)
			c15Concurrent(c, true, d)
		},
		Replay: func(c *Ctx, rec *ViolationRec) string {
			return "re-run bin/check C15 quick (the failing history and its file-system operation log are in the message)"
		},
	})
}

var _ = sort.Strings
var _ = time.Second
