package harness

import (
	"bytes"
	"crypto/ed25519"
	"crypto/rand"
	"fmt"
	"io"
	"net"
	"os"
	"strings"
	"sync"
	"sync/atomic"
	"syscall"
	"time"

	"github.com/mimecast/dtail/internal/config"
	"github.com/mimecast/dtail/internal/server"
	"github.com/mimecast/dtail/internal/source"
	"github.com/mimecast/dtail/verif/explore"
	"github.com/mimecast/dtail/verif/vcontext"
	"github.com/mimecast/dtail/verif/vrt"
	"golang.org/x/crypto/ssh"
)

// C14 (schedules): the connection accounting of the real server code under
// the controlled scheduler.  The harness plays the accept loop: for each of k
// sockets it performs the limit check and starts the real handleConnection;
// the SSH client side of every socket is a free-running native goroutine that
// performs the hand-shake and closes at once, so that every native blocking
// call of the server side (hand-shake, request/channel loops of x/crypto/ssh)
// completes on its own without needing another managed goroutine.

var c14sOnce sync.Once
var c14sSigner ssh.Signer
var c14sListener net.Listener

func c14sSetup() {
	c14sOnce.Do(func() {
		dir := Scratch()
		os.MkdirAll(dir+"/cache", 0o755)
		if err := os.Chdir(dir); err != nil {
			panic(err)
		}
		_, priv, _ := ed25519.GenerateKey(rand.Reader)
		s, err := ssh.NewSignerFromKey(priv)
		if err != nil {
			panic(err)
		}
		c14sSigner = s
		os.WriteFile(dir+"/cache/alice.authorized_keys", ssh.MarshalAuthorizedKey(s.PublicKey()), 0o600)
		l, err := net.Listen("tcp", "127.0.0.1:0")
		if err != nil {
			panic(err)
		}
		c14sListener = l
	})
}

// vListener is a net.Listener whose Accept is a visible operation of the
// controlled runtime: the harness hands it sockets it accepted natively.
type vListener struct {
	ch   *vrt.Chan[net.Conn]
	addr net.Addr
}

func (l *vListener) Accept() (net.Conn, error) {
	c, ok := l.ch.Recv2("accept")
	if !ok {
		return nil, fmt.Errorf("listener closed")
	}
	if c == nil {
		// the harness asked for a failing accept(2): out of file descriptors (temporary, not a timeout)
		return nil, &net.OpError{Op: "accept", Net: "tcp", Addr: l.addr, Err: os.NewSyscallError("accept4", syscall.EMFILE)}
	}
	return c, nil
}
func (l *vListener) Close() error   { return nil }
func (l *vListener) Addr() net.Addr { return l.addr }

const c14sDecisionHook = "internal/server.stats.serverLimitExceeded:exit"

// bannerConn replays the bytes the harness read to see whether the socket was accepted.
type bannerConn struct {
	net.Conn
	r io.Reader
}

func (b *bannerConn) Read(p []byte) (int, error) { return b.r.Read(p) }

type c14sParams struct {
	Conns int
	Max   int
	Bad   int // index of a connection that fails authentication (-1 none)
	// AcceptErr > 0: before socket number AcceptErr (1-based) the listener's Accept fails once with EMFILE
	AcceptErr int
}

func (p c14sParams) String() string {
	s := fmt.Sprintf("connections=%d max=%d badauth=%d", p.Conns, p.Max, p.Bad)
	if p.AcceptErr > 0 {
		s += fmt.Sprintf(" accept-fails-with-EMFILE-before-socket=%d", p.AcceptErr)
	}
	return s
}

func c14sScenario(p c14sParams) *explore.Scenario {
	c14sSetup()
	sc := &explore.Scenario{Name: "c14-schedules", Params: p.String(), MaxSteps: 100000, Horizon: time.Hour, Demotion: true}
	sc.Run = func(cfg vrt.Config) (string, string, vrt.Result) {
		var out, viol string
		var srv *server.Server
		maxSeen := 0
		cfg.Invariant = func() string {
			if srv == nil {
				return ""
			}
			n := srv.VerifConnections()
			if n > maxSeen {
				maxSeen = n
			}
			if n > p.Max {
				return fmt.Sprintf("the server counts %d connections as open, MaxConnections is %d", n, p.Max)
			}
			if n < 0 {
				return fmt.Sprintf("the server reports %d open connections", n)
			}
			return ""
		}
		// the reported count at the moment of every accept-time decision (the accept loop is sequential, so the
		// k-th decision is about the k-th socket)
		var countAtDecision []int
		vrt.OnHook[c14sDecisionHook] = func(interface{}) {
			if srv != nil {
				countAtDecision = append(countAtDecision, srv.VerifConnections())
			}
		}
		defer delete(vrt.OnHook, c14sDecisionHook)
		gotBanner := make([]int32, p.Conns)
		res := vrt.Run(cfg, func() {
			countAtDecision = nil
			args := DefaultArgs()
			args.Logger = "none"
			args.LogLevel = "error"
			StartEnv(source.Server, &args, func() {
				config.Server.MaxConnections = p.Max
				config.Server.HostKeyFile = Scratch() + "/cache/ssh_host_key"
				config.Server.HostKeyBits = 2048
				config.Common.CacheDir = "cache"
			})
			srv = server.New()
			ctx, cancel := vcontext.WithCancel(vcontext.Background())
			vl := &vListener{ch: vrt.Make[net.Conn]("acceptedSockets", p.Conns), addr: c14sListener.Addr()}
			loopDone := vrt.Make[struct{}]("listenerLoopDone", 0)
			vrt.Go("listenerLoop", func() { srv.VerifListenerLoop(ctx, vl); loopDone.Close("done") })
			var clients sync.WaitGroup
			started := p.Conns
			for i := 0; i < p.Conns; i++ {
				cc, err := net.Dial("tcp", c14sListener.Addr().String())
				if err != nil {
					vrt.Failf("harness", "dial: %v", err)
					return
				}
				sconn, err := c14sListener.Accept()
				if err != nil {
					vrt.Failf("harness", "accept: %v", err)
					return
				}
				// the SSH client: free running, hand-shake then close
				signer := c14sSigner
				user := "alice"
				if i == p.Bad {
					user = "mallory"
				}
				clients.Add(1)
				i := i
				atomic.StoreInt32(&gotBanner[i], 0)
				go func() {
					defer clients.Done()
					// a socket the accept loop turns away is closed before the server's SSH banner
					first := make([]byte, 64)
					cc.SetReadDeadline(time.Now().Add(60 * time.Second))
					n, _ := cc.Read(first)
					cc.SetReadDeadline(time.Time{})
					if n == 0 {
						cc.Close()
						return
					}
					atomic.StoreInt32(&gotBanner[i], 1)
					pc := &bannerConn{Conn: cc, r: io.MultiReader(bytes.NewReader(first[:n]), cc)}
					cfg := &ssh.ClientConfig{User: user, Auth: []ssh.AuthMethod{ssh.PublicKeys(signer)}, HostKeyCallback: ssh.InsecureIgnoreHostKey(), Timeout: 20 * time.Second}
					c, _, _, err := ssh.NewClientConn(pc, "harness", cfg)
					if err == nil {
						c.Close()
					}
					cc.Close()
				}()
				if p.AcceptErr == i+1 {
					vl.ch.Send("failing-accept", nil)
				}
				vl.ch.Send("socket", sconn) // the real accept loop takes it from here
			}
			// let every connection goroutine finish: they all end by themselves because the clients close
			vrt.Sleep("settle", 30*time.Second)
			if b := vrt.BlockedOnLocks(); b != "" {
				// (reported here rather than by waiting for the native clients' time-outs)
				vrt.Failf("deadlock", "30 s after the last socket arrived nothing is runnable and goroutines of the server still wait for a lock whose holder is blocked itself: %s", b)
				return
			}
			// sockets the accept loop never took (it stopped accepting): hang up, so that their clients do not wait
			for vl.ch.Len("unclaimed") > 0 {
				if sc := vl.ch.Recv("unclaimed"); sc != nil {
					sc.Close()
				}
			}
			clients.Wait()
			cancel()
			vl.ch.Close("close-listener")
			loopDone.Recv("wait-loop")
			vrt.Sleep("settle", time.Second)
			if n := srv.VerifConnections(); n != 0 {
				viol = fmt.Sprintf("every connection has ended but the server still reports %d open connections", n)
			}
			// "accepts a new one whenever fewer are open": a socket may be turned away at accept only if the
			// reported count had reached MaxConnections at that moment
			if len(countAtDecision) < p.Conns && viol == "" {
				viol = fmt.Sprintf("the accept loop looked at %d of %d sockets only: it stopped accepting (after an accept error?) although the server is running", len(countAtDecision), p.Conns)
			}
			for k := 0; k < p.Conns && k < len(countAtDecision) && viol == ""; k++ {
				if atomic.LoadInt32(&gotBanner[k]) == 0 && countAtDecision[k] < p.Max {
					viol = fmt.Sprintf("socket %d was turned away at accept although the server reported only %d of %d connections open at that moment", k, countAtDecision[k], p.Max)
				}
			}
			out = fmt.Sprintf("started=%d maxcount=%d", started, maxSeen)
		})
		if res.Fail != nil {
			viol = res.Fail.Error()
			out = "fail:" + res.Fail.Kind
		}
		return out, viol, res
	}
	sc.Filter = func(pt *vrt.Point, alt int) bool {
		if pt.Alts[alt].Kind != vrt.AltRun {
			return true
		}
		return true
	}
	return sc
}

func init() {
	Register(&Check{
		ID:       "C14S",
		ReportAs: "C14",
		Level:    "model_checking",
		Rule: "schedule exploration of the server's real connection accounting: the server's real accept loop runs on a listener whose Accept is a visible operation (the harness feeds it natively accepted sockets), with the real handleConnection per socket for 3-4 sockets with MaxConnections 1-3, optionally with one accept(2) failing with EMFILE; each socket's SSH client is a native goroutine that " +
			"hand-shakes (one with bad credentials in some scenarios) and closes; all schedules within 2 deviations of the server-side goroutines (mutex operations of the counter are scheduling points); invariant on every state: reported open connections <= MaxConnections and >= 0; at the end 0; a socket is turned away at accept only when the reported count had reached MaxConnections at that moment",
		Assumptions: []string{
			"x/crypto/ssh runs natively inside the controlled goroutines; every native blocking call completes without the help of another controlled goroutine because the client side is free running",
		},
		QuickBudget: 100 * time.Second,
		Scenarios: func(tier string) (out []*explore.Scenario) {
			return []*explore.Scenario{c14sScenario(c14sParams{Conns: 3, Max: 2, Bad: -1})}
		},
		Run: func(c *Ctx) {
			ps := []c14sParams{{Conns: 3, Max: 2, Bad: -1}, {Conns: 3, Max: 1, Bad: 0}, {Conns: 3, Max: 3, Bad: -1, AcceptErr: 2}, {Conns: 2, Max: 2, Bad: -1, AcceptErr: 1}}
			d := 2
			if c.Thorough() {
				ps = append(ps, c14sParams{Conns: 4, Max: 2, Bad: 1}, c14sParams{Conns: 4, Max: 3, Bad: -1})
			}
			for _, p := range ps {
				if c.Expired() {
					return
				}
				c.Explore(c14sScenario(p), d, func(msg string, v *explore.Violation) string {
					switch {
					case strings.Contains(msg, "counts"):
						return "more-connections-counted-than-MaxConnections"
					case strings.Contains(msg, "stopped accepting"):
						return "accept-loop-stops-after-an-accept-error"
					case strings.Contains(msg, "turned away"):
						return "refused-although-slots-free"
					case strings.Contains(msg, "still reports"):
						return "slot-not-given-back"
					case strings.HasPrefix(msg, "panic"):
						return "panic"
					case strings.HasPrefix(msg, "deadlock"):
						return "deadlock"
					}
					return "other"
				})
				c.Sample(map[string]interface{}{"scenario": p.String(), "deviation_bound": d})
			}
		},
	})
}
