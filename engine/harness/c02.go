package harness

import (
	"bytes"
	"compress/gzip"
	"fmt"
	"os"
	"path/filepath"
	"strings"
	"time"

	"github.com/DataDog/zstd"
	"github.com/mimecast/dtail/internal/config"
	"github.com/mimecast/dtail/internal/lcontext"
	"github.com/mimecast/dtail/internal/source"
	"github.com/mimecast/dtail/verif/explore"
	"github.com/mimecast/dtail/verif/vos"
	"github.com/mimecast/dtail/verif/vrt"
)

// C02: every selected line is delivered before the session closes, at any pace.

type c02Params struct {
	Kind     string // cat | grep
	Files    []int  // line counts, one command per file (as the clients generate)
	Glob     bool   // one glob command matching all files instead
	CatLimit int
	// consumer pacing: Stall of virtual time placed before the StallAt-th
	// stdout write (0 = eager consumer, -1 = before the first write...)
	Stall   time.Duration
	StallAt int
	Max     int // grep: --max
	After   int // grep: --after
	D       int // deviation bound of this scenario (0 = tier default)
	// ReadDelayMs makes every read(2) of the files take that long (virtual time): the session then
	// spans dtail's timers (1 s read poll of the transport, 3 s truncation check, 5 s time-outs)
	ReadDelayMs int
	// Refused: the glob also matches entries that are not read: a sub-directory, a dangling symbolic link and
	// (with DenyRule) a file the user's permission rules exclude
	Refused bool
	// Unclean: the glob is spelled non-canonically (1: "//", 2: "/./", 3: "x/../")
	Unclean int
	// Servers > 1: the session names that many servers (each an in-process server with its own host name); the
	// output is labelled (non-plain) so that every line can be attributed to its server
	Servers int
	// Enc: the files are compressed ("gz", "zst"); NoNL: the last line of every file has no terminating newline;
	// PaceMs: a uniformly slow consumer (that long before every read from the client's stdout pipe)
	Enc string
	// Damaged: the last 8 bytes (check sum and length) of every gzip file are missing, as in a file that is still
	// being written or was copied partially: the read fails AFTER the lines were handed on. Nothing can be
	// demanded about completeness then, but what is delivered must still be each line at most once, in order.
	Damaged bool
	NoNL    bool
	PaceMs  int
}

func (p c02Params) String() string {
	s := fmt.Sprintf("%s files=%v glob=%v catlimit=%d stall=%v@%d max=%d after=%d readdelay=%dms", p.Kind, p.Files, p.Glob, p.CatLimit, p.Stall, p.StallAt, p.Max, p.After, p.ReadDelayMs)
	if p.Refused {
		s += " +dir,dangling-link,denied-file matched by the glob"
	}
	if p.Unclean > 0 {
		s += fmt.Sprintf(" unclean-glob-spelling=%d", p.Unclean)
	}
	if p.Servers > 1 {
		s += fmt.Sprintf(" servers=%d", p.Servers)
	}
	if p.Damaged {
		s += " damaged-tail"
	}
	if p.Enc != "" {
		s += " compressed=" + p.Enc
	}
	if p.NoNL {
		s += " last-line-unterminated"
	}
	if p.PaceMs > 0 {
		s += fmt.Sprintf(" consumer-pace=%dms-per-read", p.PaceMs)
	}
	return s
}

func c02FileLines(f, n int) []string {
	var out []string
	for l := 1; l <= n; l++ {
		out = append(out, fmt.Sprintf("f%dl%dM", f, l))
	}
	return out
}

func c02Setup(p c02Params) (paths []string, dir string) {
	dir = fmt.Sprintf("c02/%s-%v-%v", p.Kind, p.Files, p.Glob)
	if p.Refused {
		dir += "-refused"
	}
	if p.Enc != "" || p.NoNL {
		dir += fmt.Sprintf("-%s-%v", p.Enc, p.NoNL)
	}
	if p.Damaged {
		dir += "-damaged"
	}
	dir = strings.NewReplacer(" ", "_", "[", "", "]", "").Replace(dir)
	for f, n := range p.Files {
		content := strings.Join(c02FileLines(f, n), "\n") + map[bool]string{true: "\n", false: ""}[n > 0 && !p.NoNL]
		name := fmt.Sprintf("%s/f%d.log", dir, f)
		switch p.Enc {
		case "gz":
			var b bytes.Buffer
			w := gzip.NewWriter(&b)
			w.Write([]byte(content))
			w.Close()
			content, name = b.String(), name+".gz"
			if p.Damaged {
				content = content[:len(content)-8]
			}
		case "zst":
			d, err := zstd.Compress(nil, []byte(content))
			if err != nil {
				panic(err)
			}
			content, name = string(d), name+".zst"
		}
		paths = append(paths, WriteScratch(name, content))
	}
	if p.Refused {
		base := Scratch() + "/" + dir
		os.MkdirAll(base+"/f7.log", 0o755) // a directory whose name matches the glob
		os.Remove(base + "/f8.log")
		os.Symlink("nowhere", base+"/f8.log")
		WriteScratch(dir+"/f9denied.log", "f9l1M\n")
	}
	return paths, Scratch() + "/" + dir
}

// c02Body runs one session and returns (outcome, violation).
func c02Body(p c02Params, paths []string, dir string) (string, string) {
	args := DefaultArgs()
	args.Plain = true
	args.LogLevel = "error"
	if p.Glob {
		args.What = dir + "/f*.log"
		if p.Enc != "" {
			args.What += "." + p.Enc
		}
		switch p.Unclean {
		case 1:
			args.What = dir + "//f*.log"
		case 2:
			args.What = filepath.Dir(dir) + "/./" + filepath.Base(dir) + "/f*.log"
		case 3:
			args.What = dir + "/../" + filepath.Base(dir) + "/f*.log"
		}
	} else {
		args.What = strings.Join(paths, ",")
	}
	if p.Kind == "grep" {
		args.RegexStr = "M"
		args.LContext = lcontext.LContext{MaxCount: p.Max, AfterContext: p.After}
	}
	if p.Servers > 1 {
		var names []string
		for i := 0; i < p.Servers; i++ {
			names = append(names, fmt.Sprintf("srv%d", i))
		}
		args.ServersStr = strings.Join(names, ",")
		args.Plain = false
		args.NoColor = true
		args.Quiet = true
	}
	o := ClientOpts{Kind: p.Kind, Args: args, ForceServerless: p.Servers > 1, Mutate: func() {
		config.Server.MaxConcurrentCats = p.CatLimit
		if p.Refused {
			config.Server.Permissions.Default = []string{"^/.*", "!denied"}
		}
		if p.ReadDelayMs > 0 {
			vos.S.ReadDelay = time.Duration(p.ReadDelayMs) * time.Millisecond
			vos.S.ReadDelayPrefix = Scratch() + "/c02/"
		}
	}}
	if p.PaceMs > 0 {
		o.PipeCap = 0
		o.Consumer = func(pipe *vrt.Chan[string], sink *vrt.StdoutSink) {
			for {
				vrt.Sleep("consumer-pace", time.Duration(p.PaceMs)*time.Millisecond)
				s, ok := pipe.Recv2("consumer")
				if !ok {
					return
				}
				sink.Buf.WriteString(s)
			}
		}
	}
	if p.Stall > 0 {
		o.PipeCap = 0
		o.Consumer = func(pipe *vrt.Chan[string], sink *vrt.StdoutSink) {
			n := 0
			for {
				n++
				if n == p.StallAt {
					vrt.Sleep("consumer-stall", p.Stall)
				}
				s, ok := pipe.Recv2("consumer")
				if !ok {
					return
				}
				sink.Buf.WriteString(s)
			}
		}
	}
	r := RunClientBody(o)
	if r.Err != "" {
		return "err", "client error: " + r.Err
	}
	// oracle: per file, exactly its selected lines, once, in order
	got := map[int][]string{}
	if p.Servers > 1 {
		// labelled output: every server must deliver every file completely, once and in order
		perHost := map[string]map[int][]string{}
		for _, l := range strings.Split(r.Stdout, "\n") {
			f := strings.SplitN(l, "|", 6)
			if len(f) != 6 || f[0] != "REMOTE" {
				continue
			}
			var fi, n int
			if _, err := fmt.Sscanf(f[5], "f%dl%dM", &fi, &n); err != nil {
				return "garbage", fmt.Sprintf("unexpected output line %q", l)
			}
			if perHost[f[1]] == nil {
				perHost[f[1]] = map[int][]string{}
			}
			perHost[f[1]][fi] = append(perHost[f[1]][fi], f[5])
		}
		var missing []string
		for i := 0; i < p.Servers; i++ {
			h := fmt.Sprintf("srv%d", i)
			for f, n := range p.Files {
				want := c02FileLines(f, n)
				if strings.Join(perHost[h][f], "\n") != strings.Join(want, "\n") {
					missing = append(missing, fmt.Sprintf("server %s file %d: got %d of %d lines %v", h, f, len(perHost[h][f]), len(want), perHost[h][f]))
				}
			}
		}
		if len(missing) > 0 {
			return fmt.Sprintf("status=%d", r.Status), "lines lost or duplicated: " + strings.Join(missing, "; ")
		}
		if r.Status != 0 {
			return fmt.Sprintf("status=%d", r.Status), fmt.Sprintf("all lines delivered but exit status %d", r.Status)
		}
		return fmt.Sprintf("status=%d servers=%d", r.Status, p.Servers), ""
	}
	for _, l := range strings.Split(r.Stdout, "\n") {
		if l == "" {
			continue
		}
		var f, n int
		if (p.Refused || p.Damaged) && (strings.HasPrefix(l, "SERVER|") || strings.HasPrefix(l, "CLIENT|")) {
			continue // the error report about an entry that is not read (serverless: the server part logs to the same stdout)
		}
		if _, err := fmt.Sscanf(l, "f%dl%dM", &f, &n); err != nil {
			return "garbage", fmt.Sprintf("unexpected output line %q", l)
		}
		got[f] = append(got[f], l)
	}
	var viol string
	var missing []string
	for f, n := range p.Files {
		want := c02FileLines(f, n)
		if p.Kind == "grep" && p.Max > 0 && len(want) > p.Max {
			want = want[:p.Max] // every line matches, so after-context adds nothing beyond the next match
		}
		if p.Damaged {
			if len(got[f]) > len(want) || strings.Join(got[f], "\n") != strings.Join(want[:len(got[f])], "\n") {
				missing = append(missing, fmt.Sprintf("file %d (damaged tail): %d lines delivered, not a prefix of its %d lines, each once: %v", f, len(got[f]), len(want), got[f]))
			}
			continue
		}
		if strings.Join(got[f], "\n") != strings.Join(want, "\n") {
			missing = append(missing, fmt.Sprintf("file %d: got %d of %d lines %v", f, len(got[f]), len(want), got[f]))
		}
	}
	if p.Damaged && len(missing) == 0 {
		return fmt.Sprintf("status=%d out=%s", r.Status, strings.ReplaceAll(r.Stdout, "\n", ",")), ""
	}
	if len(missing) > 0 {
		viol = "lines lost or duplicated: " + strings.Join(missing, "; ")
	} else if r.Status != 0 {
		viol = fmt.Sprintf("all lines delivered but exit status %d", r.Status)
	}
	return fmt.Sprintf("status=%d out=%s", r.Status, strings.ReplaceAll(r.Stdout, "\n", ",")), viol
}

func c02Scenario(p c02Params) *explore.Scenario {
	paths, dir := c02Setup(p)
	sc := &explore.Scenario{Name: "c02", Params: p.String(), MaxSteps: 400000, Horizon: 90*time.Second + 2*p.Stall, Demotion: true}
	if p.D < 0 {
		sc.MaxSteps = 20000000
	}
	sc.Run = func(cfg vrt.Config) (string, string, vrt.Result) {
		var out, viol string
		var hooks []vrt.HookEvent
		res := vrt.Run(cfg, func() {
			out, viol = c02Body(p, paths, dir)
			hooks = vrt.W.Hooks
		})
		if res.Fail != nil {
			hooks = nil
			viol = res.Fail.Error()
			out = "fail:" + res.Fail.Kind
		}
		if viol != "" {
			ncmd := len(p.Files)
			if p.Glob {
				ncmd = 1
			}
			cl := c02Classify(hooks, ncmd)
			if cl == "" && hooks != nil && !hooksPresent(hooks) && ncmd > 1 && strings.Contains(viol, "got 0 of") && p.Stall == 0 {
				// the observed functions were renamed: fall back to the outside view of the known
				// hand-shake race (a whole later file missing in a multi-command session)
				cl = "[session-shutdown-began-before-all-commands-were-received] "
			}
			viol = cl + viol
		}
		return out, viol, res
	}
	sc.Filter = func(pt *vrt.Point, alt int) bool {
		if pt.Alts[alt].Kind != vrt.AltRun {
			return true
		}
		inf := pt.Infos[alt]
		switch inf.Kind {
		case "lock", "unlock", "wgadd", "wgwait":
			return false
		}
		return true
	}
	return sc
}

// c02Classify looks at the function-entry observations: if the session's
// shutdown began before the server had received every command the client has
// to send, the violation is the known session hand-shake race.
func c02Classify(hooks []vrt.HookEvent, ncmd int) string {
	received := 0
	for _, h := range hooks {
		if strings.HasSuffix(h.Name, "baseHandler.incrementActiveCommands:exit") {
			received++ // the command is counted as active from here on
		}
		if strings.HasSuffix(h.Name, "baseHandler.shutdown") {
			if received < ncmd {
				return "[session-shutdown-began-before-all-commands-were-received] "
			}
			return ""
		}
	}
	return ""
}

func c02Sig(msg string, v *explore.Violation) string {
	switch {
	case strings.HasPrefix(msg, "[session-shutdown-began-before-all-commands-were-received]"):
		return "session-shutdown-began-before-all-commands-were-received"
	case strings.HasPrefix(msg, "pool:"):
		return "pooled-object-returned-twice"
	case strings.HasPrefix(msg, "deadlock"):
		return "deadlock"
	case strings.HasPrefix(msg, "horizon"):
		return "session-does-not-end"
	case strings.HasPrefix(msg, "panic"):
		return "panic"
	case strings.Contains(msg, "exit status"):
		return "nonzero-exit-status"
	case strings.Contains(msg, "lines lost"):
		if strings.Contains(v.Params, "stall=0s") {
			return "lines-lost"
		}
		return "lines-lost-with-stalled-consumer"
	case strings.Contains(msg, "unexpected output line"):
		return "error-message-instead-of-lines"
	}
	return "other"
}

// c02Segmented: the session's commands reach the server handler the way an
// SSH channel delivers them: as arbitrary segments of the byte stream, handed
// over in ONE re-used transport buffer (io.Copy's).  Every file of the session
// must still be delivered completely.  Canonical schedule.
func c02Segmented(c *Ctx) {
	files := []int{2, 1, 3, 2}
	p := c02Params{Kind: "cat", Files: files, CatLimit: 2}
	paths, _ := c02Setup(p)
	var stream []byte
	for _, f := range paths {
		stream = append(stream, WireCommand("cat:quiet=true "+f+" regex:noop ")...)
	}
	for _, seg := range []int{1, 2, 3, 7, 16, 50, 64, 100, 150, 1000, 32768} {
		for _, bufSize := range []int{seg, 32768} {
			var viol string
			res := vrt.Run(vrt.Config{MaxSteps: 5000000, Horizon: 10 * time.Minute}, func() {
				args := DefaultArgs()
				args.Logger = "none"
				args.LogLevel = "error"
				StartEnv(source.Server, &args, func() { config.Server.MaxConcurrentCats = 2 })
				cat := vrt.Make[struct{}]("catLimiter", 2)
				tail := vrt.Make[struct{}]("tailLimiter", 2)
				s := NewServerSession("s", "verifuser", cat, tail)
				vrt.Go("pump", func() { s.Pump(32 * 1024) })
				tbuf := make([]byte, bufSize)
				rest := stream
				for len(rest) > 0 {
					n := seg
					if n > len(rest) {
						n = len(rest)
					}
					if n > len(tbuf) {
						n = len(tbuf)
					}
					copy(tbuf, rest[:n])
					s.H.Write(tbuf[:n])
					rest = rest[n:]
				}
				s.Done.Recv("wait")
				got := map[string]int{}
				for _, m := range s.Lines() {
					if f := strings.SplitN(m, "|", 6); len(f) == 6 {
						got[strings.TrimSpace(f[5])]++
					}
				}
				for f, n := range files {
					for _, l := range c02FileLines(f, n) {
						if got[l] != 1 {
							viol = fmt.Sprintf("commands delivered in segments of %d bytes through a re-used %d-byte transport buffer: line %q of file %d delivered %d times, want 1", seg, bufSize, l, f, got[l])
						}
					}
				}
			})
			c.Count(fmt.Sprintf("segmented|%d|%d", seg, bufSize))
			if res.Fail != nil {
				viol = res.Fail.Error()
			}
			if viol != "" {
				c.Violation("lines-lost-with-segmented-command-stream", viol, map[string]int{"segment": seg, "buffer": bufSize})
			}
		}
	}
}

// c02SplitAndEmptyLines: files made of empty lines, short lines and lines of exactly 1x / 2x MaxLineLength (8) and one
// byte more, in every order (<=4 lines), through a complete dcat and a complete dgrep --invert session (pattern that
// matches nothing: every line is selected): every line arrives once and in order, i.e. the output is the file with a
// newline after every 8th byte of an over-long line.  (Empty lines next to split lines were not in C02's files.)
func c02SplitAndEmptyLines(c *Ctx) {
	toks := []string{"", "ab", "xxxxxxxx", "yyyyyyyyyyyyyyyy", "zzzzzzzzz"}
	var files [][]string
	var rec func(cur []string)
	rec = func(cur []string) {
		if len(cur) > 0 {
			files = append(files, append([]string{}, cur...))
		}
		if len(cur) == 4 {
			return
		}
		for _, t := range toks {
			rec(append(cur, t))
		}
	}
	rec(nil)
	n := 0
	for _, lines := range files {
		long := false
		for _, l := range lines {
			long = long || len(l) >= 8
		}
		if !long {
			continue
		}
		for _, kind := range []string{"cat", "grep"} {
			n++
			if n%c.NShards != c.Shard {
				continue
			}
			if c.Expired() {
				return
			}
			content := strings.Join(lines, "\n") + "\n"
			path := WriteScratch(fmt.Sprintf("c02/split-%d-%d.log", c.Shard, n), content)
			want := string(c01Split([]byte(content), 8))
			var got ClientResult
			res := vrt.Run(vrt.Config{MaxSteps: 5000000, Horizon: 10 * time.Minute}, func() {
				args := DefaultArgs()
				args.Plain = true
				args.What = path
				args.LogLevel = "error"
				if kind == "grep" {
					args.RegexStr = "never matches Q"
					args.RegexInvert = true
				}
				got = RunClientBody(ClientOpts{Kind: kind, Args: args, Mutate: func() { config.Server.MaxLineLength = 8 }})
			})
			os.Remove(path)
			c.Count(fmt.Sprintf("split|%s|%q", kind, lines))
			if n%64 == 0 {
				vrt.Forget()
			}
			if res.Fail != nil || got.Status != 0 || got.Stdout != want {
				c.Violation("lines-lost-next-to-a-split-line", fmt.Sprintf("d%s (MaxLineLength 8) over the lines %q: output %q (status %d, %v), want every line once and in order: %q", kind, lines, got.Stdout, got.Status, res.Fail, want), map[string]interface{}{"kind": kind, "lines": lines})
				return
			}
		}
	}
}

func c02ParamSets(tier string) (ps []c02Params, d int) {
	if tier == "quick" {
		return []c02Params{
			{Kind: "cat", Files: []int{2}, CatLimit: 2},
			{Kind: "cat", Files: []int{0, 2}, CatLimit: 2},
			{Kind: "cat", Files: []int{1, 1}, CatLimit: 1},
			{Kind: "cat", Files: []int{1, 2}, Glob: true, CatLimit: 1},
			{Kind: "grep", Files: []int{3}, CatLimit: 2, Max: 1, After: 1},
			{Kind: "cat", Files: []int{2}, CatLimit: 2, Stall: 150 * time.Millisecond, StallAt: 2},
			{Kind: "cat", Files: []int{3}, CatLimit: 2, Stall: 12 * time.Second, StallAt: 2, D: 1},
			{Kind: "cat", Files: []int{2}, CatLimit: 2, ReadDelayMs: 1100, D: 1},
			{Kind: "cat", Files: []int{1, 2}, Glob: true, CatLimit: 1, ReadDelayMs: 3100, D: 1},
			{Kind: "grep", Files: []int{3}, CatLimit: 2, Max: 2, After: 1, ReadDelayMs: 5200, D: 1},
			{Kind: "cat", Files: []int{3}, CatLimit: 2, Stall: 61 * time.Second, StallAt: 3, D: 1},
			{Kind: "cat", Files: []int{3000}, CatLimit: 2, Stall: 4 * time.Second, StallAt: 150, D: -1},
			{Kind: "grep", Files: []int{1500, 700}, Glob: true, CatLimit: 1, Max: 1200, After: 2, Stall: 2 * time.Second, StallAt: 50, D: -1},
			{Kind: "cat", Files: []int{1, 1, 1}, Glob: true, CatLimit: 1, D: 1},
			// gzip files whose tail is missing: the read fails after the lines were handed on (at most once, in order)
			{Kind: "cat", Files: []int{3}, CatLimit: 2, Enc: "gz", Damaged: true, D: 1},
			{Kind: "grep", Files: []int{2, 3}, Glob: true, CatLimit: 1, Enc: "gz", Damaged: true, D: 1},
			{Kind: "cat", Files: []int{900}, CatLimit: 2, Enc: "gz", Damaged: true, D: -1},
			// compressed files and files whose last line is unterminated, read slowly enough (slow disk / uniformly slow
			// consumer holding the reader back behind its full queues) that the end of the file is reached while the
			// reader's periodic (3 s) checks are due
			{Kind: "cat", Files: []int{2}, CatLimit: 2, ReadDelayMs: 3100, Enc: "gz", NoNL: true, D: 1},
			{Kind: "cat", Files: []int{3}, Glob: true, CatLimit: 1, ReadDelayMs: 1600, Enc: "zst", NoNL: true, D: 1}, // (one file: in plain mode an unterminated last line is followed directly by the next file's first)
			{Kind: "grep", Files: []int{3}, CatLimit: 2, ReadDelayMs: 3100, NoNL: true, D: 1},
			{Kind: "cat", Files: []int{900}, CatLimit: 2, PaceMs: 10, D: -1},
			{Kind: "cat", Files: []int{900}, CatLimit: 2, PaceMs: 10, NoNL: true, D: -1},
			{Kind: "cat", Files: []int{900}, CatLimit: 2, PaceMs: 10, Enc: "gz", D: -1},
			{Kind: "cat", Files: []int{900}, CatLimit: 2, PaceMs: 10, Enc: "gz", NoNL: true, D: -1},
			{Kind: "cat", Files: []int{900}, CatLimit: 2, PaceMs: 10, Enc: "zst", NoNL: true, D: -1},
			{Kind: "grep", Files: []int{1000}, Glob: true, CatLimit: 1, PaceMs: 12, Enc: "gz", NoNL: true, D: -1},
			{Kind: "cat", Files: []int{2}, CatLimit: 2, Servers: 2, D: 1},
			{Kind: "grep", Files: []int{1, 1}, Glob: true, CatLimit: 1, Max: 1, Servers: 3, D: 1},
			{Kind: "cat", Files: []int{2, 1}, Glob: true, CatLimit: 2, Unclean: 1, D: 1},
			{Kind: "grep", Files: []int{2}, Glob: true, CatLimit: 2, Unclean: 2, D: 1},
			{Kind: "cat", Files: []int{1, 2}, Glob: true, CatLimit: 1, Unclean: 3, D: 1},
			{Kind: "cat", Files: []int{1, 0, 1, 1, 2}, Glob: true, CatLimit: 2, D: 1},
			{Kind: "cat", Files: []int{1, 2}, Glob: true, CatLimit: 1, Refused: true, D: 1},
			{Kind: "grep", Files: []int{2}, Glob: true, CatLimit: 2, Max: 1, Refused: true, D: 1},
		}, 2
	}
	// compressed files / unterminated last lines, slow disks and uniformly slow consumers (as in the quick tier, more of them)
	for _, enc := range []string{"", "gz", "zst"} {
		for _, nonl := range []bool{false, true} {
			for _, rd := range []int{1600, 3100, 5200} {
				ps = append(ps, c02Params{Kind: "cat", Files: []int{2}, CatLimit: 2, ReadDelayMs: rd, Enc: enc, NoNL: nonl, D: 1})
			}
			ps = append(ps, c02Params{Kind: "cat", Files: []int{900}, CatLimit: 2, PaceMs: 10, Enc: enc, NoNL: nonl, D: -1},
				c02Params{Kind: "grep", Files: []int{1000}, Glob: true, CatLimit: 1, PaceMs: 12, Enc: enc, NoNL: nonl, D: -1})
		}
	}
	for _, files := range [][]int{{0}, {1}, {2}, {0, 1}, {1, 0}, {1, 2}, {2, 2}, {0, 1, 2}, {1, 1, 1}} {
		for _, lim := range []int{1, 2} {
			ps = append(ps, c02Params{Kind: "cat", Files: files, CatLimit: lim})
			if len(files) > 1 {
				ps = append(ps, c02Params{Kind: "cat", Files: files, Glob: true, CatLimit: lim})
			}
		}
	}
	for _, st := range []time.Duration{50 * time.Millisecond, 150 * time.Millisecond, 2 * time.Second, 6 * time.Second, 12 * time.Second, 61 * time.Second} {
		for _, at := range []int{1, 2, 3} {
			ps = append(ps, c02Params{Kind: "cat", Files: []int{2}, CatLimit: 2, Stall: st, StallAt: at})
			ps = append(ps, c02Params{Kind: "cat", Files: []int{1, 2}, Glob: true, CatLimit: 1, Stall: st, StallAt: at})
		}
	}
	ps = append(ps, c02Params{Kind: "grep", Files: []int{3}, CatLimit: 2, Max: 1, After: 1},
		c02Params{Kind: "grep", Files: []int{2, 3}, CatLimit: 1, Max: 2, After: 0},
		c02Params{Kind: "cat", Files: []int{101}, CatLimit: 2},
		c02Params{Kind: "cat", Files: []int{100, 1}, Glob: true, CatLimit: 1},
		c02Params{Kind: "cat", Files: []int{1, 0, 1, 1, 2}, Glob: true, CatLimit: 2},
		c02Params{Kind: "cat", Files: []int{1, 2}, Glob: true, CatLimit: 1, Refused: true},
		c02Params{Kind: "cat", Files: []int{2}, Glob: true, CatLimit: 2, Refused: true},
		c02Params{Kind: "grep", Files: []int{2}, Glob: true, CatLimit: 2, Max: 1, Refused: true})
	return ps, 2
}

func init() {
	Register(&Check{
		ID:    "C02",
		Level: "model_checking",
		Rule: "stateless exploration of all schedules within a deviation bound (quick 1, thorough 2; deviations = preemption, non-first ready select case, demotion of a goroutine) of one complete dcat/dgrep session: " +
			"the real client main body, serverless connector, server handler, read commands, readers and client handler; sessions (with one server, and with 2-3 servers in labelled output) of 1-3 files (and one of 5 files: more than twice the limit queue) with 0-2 lines (plus 100/101 lines around the queue capacity and, on the canonical schedule, files of 700-3000 lines with a stalling consumer), one command per file or one glob (also spelled with '//', '/./', 'x/../'), " +
			"cat limit 1-2, grep with max/after, globs that also match a directory, a dangling link and a file the permission rules deny, consumer eager, stalled 50 ms..6 s before the k-th write, or uniformly slow (10 ms per read over 900-line files, plain / gzip / zstd, last line terminated or not: the reader reaches the end of the file seconds after it started, behind its full queues); slow disks (1.1-5.2 s per read(2)) also on compressed files with an unterminated last line; oracle: per file exactly its selected lines once and in order, exit status 0, termination before the horizon; " +
			"plus (canonical schedule) all files of <=4 lines over {empty, short, exactly 1x and 2x MaxLineLength, one byte more} through dcat and dgrep --invert with MaxLineLength 8: every line once and in order; plus a 4-file session whose command stream is delivered in segments of 1..32768 bytes through a re-used transport buffer (as an SSH channel does); distinct = distinct (scenario, stdout+status) outcomes",
		Assumptions: []string{
			"code between two synchronisation operations is atomic (data-race freedom; checked by the free-running -race pass)",
			"virtual time advances only when no goroutine is runnable; slowness is modelled by explicit consumer stalls and by demotion",
			"no preemption alternatives at mutex and wait-group operations (dlog's logger lock); every channel, select, atomic and cancel operation is a branching point",
		},
		Scenarios: func(tier string) (out []*explore.Scenario) {
			ps, _ := c02ParamSets(tier)
			for _, p := range ps {
				out = append(out, c02Scenario(p))
			}
			return
		},
		Run: func(c *Ctx) {
			if c.Shard == 0 {
				c02Segmented(c)
			}
			c02SplitAndEmptyLines(c)
			ps, d := c02ParamSets(c.Tier)
			for _, p := range ps {
				if c.Expired() {
					return
				}
				dd := d
				if p.D > 0 {
					dd = p.D
				}
				if p.D < 0 {
					dd = 0 // canonical schedule only (long executions)
				}
				c.Explore(c02Scenario(p), dd, c02Sig)
				c.Sample(map[string]interface{}{"scenario": p.String(), "deviation_bound": d})
			}
		},
		Replay: func(c *Ctx, rec *ViolationRec) string {
			for _, tier := range []string{"quick", "thorough"} {
				ps, _ := c02ParamSets(tier)
				for _, p := range ps {
					if fmt.Sprintf("%q", p.String()) == string(rec.Params) {
						sc := c02Scenario(p)
						sc.Policy = vrt.Policy(rec.Policy)
						sc.Demotion = rec.Demotion
						_, v, _, div := explore.Replay(sc, rec.Choices)
						if div != "" {
							return "replay diverged: " + div
						}
						return v
					}
				}
			}
			return "unknown scenario " + string(rec.Params)
		},
	})
}
