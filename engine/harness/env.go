package harness

import (
	"os"

	"github.com/mimecast/dtail/internal/config"
	"github.com/mimecast/dtail/internal/io/dlog"
	"github.com/mimecast/dtail/internal/io/dlog/loggers"
	"github.com/mimecast/dtail/internal/source"
	"github.com/mimecast/dtail/verif/vcontext"
	"github.com/mimecast/dtail/verif/vos"
	"github.com/mimecast/dtail/verif/vsync"
)

func init() {
	os.Setenv("DTAIL_HOSTNAME_OVERRIDE", "host0")
	os.Setenv("HOME", "/nonexistent-verif-home")
}

// Env is the dtail process environment of one controlled execution.
type Env struct {
	Ctx    vcontext.Context
	Cancel vcontext.CancelFunc
	wg     vsync.WaitGroup
}

// DefaultArgs are the flag defaults of the dtail client binaries.
func DefaultArgs() config.Args {
	return config.Args{
		ConnectionsPerCPU: config.DefaultConnectionsPerCPU,
		SSHPort:           config.DefaultSSHPort,
		LogDir:            "/nonexistent-verif-log",
		Logger:            "stdout",
		LogLevel:          config.DefaultLogLevel,
		ConfigFile:        "none",
		UserName:          "verifuser",
	}
}

// StartEnv does what the main functions of the dtail binaries do before they
// create a client: config.Setup and dlog.Start.  It must be called inside
// vrt.Run.  mutate may adjust the server configuration afterwards.
func StartEnv(src source.Source, args *config.Args, mutate func()) *Env {
	vos.Reset()
	dlog.VerifReset()
	loggers.VerifReset()
	config.Setup(src, args, nil)
	if mutate != nil {
		mutate()
	}
	e := &Env{}
	e.Ctx, e.Cancel = vcontext.WithCancel(vcontext.Background())
	e.wg.Add(1)
	dlog.Start(e.Ctx, &e.wg, src)
	return e
}

// Stop is the epilogue of main: cancel and wait for the loggers.
func (e *Env) Stop() {
	e.Cancel()
	e.wg.Wait()
}
