package harness

import (
	"fmt"
	"os"
	"sort"
	"strings"
	"time"

	"github.com/mimecast/dtail/internal/clients"
	"github.com/mimecast/dtail/internal/config"
	"github.com/mimecast/dtail/internal/omode"
	"github.com/mimecast/dtail/verif/explore"
	"github.com/mimecast/dtail/verif/vos"
	"github.com/mimecast/dtail/verif/vrt"
)

// C06: mapreduce accounts for every file of every server under any scheduling.

type c06Params struct {
	Servers  int
	Files    []int // line counts of the files (every server reads the same files)
	CatLimit int
	Interval int // seconds; 0 = default (5)
	Glob     bool
	D        int // deviation bound for this scenario (0 = tier default)
	// ReadDelayMs makes every read(2) of the data files take that long (virtual
	// time), so that the run spans the query interval and dtail's timers.
	ReadDelayMs int
	Policy      int
	Long        bool // offer long demotions (goroutine delayed up to 150 ms of virtual time)
	// Faulty adds a file that passes the permission check and then fails while being read: "emptygz" = a zero-byte
	// .gz, "badgz" = a .gz that is not gzip data, "cutgz" = a .gz cut inside its header.  It contributes no line.
	Faulty string
	// Keys: number of distinct group keys (default 2); more groups than the server's message queue holds (10) make the
	// final partial result a burst of messages
	Keys int
	// NoNL: the last line of every file has no terminating newline
	NoNL bool
	// Malformed: the files are in the default log format (table T) and hold, after their first and before their last
	// line, a line the parser rejects with an error (a key-value token without '='); it contributes nothing
	Malformed bool
}

func (p c06Params) String() string {
	s := fmt.Sprintf("servers=%d files=%v catlimit=%d interval=%d glob=%v d=%d readdelay=%dms policy=%d long=%v", p.Servers, p.Files, p.CatLimit, p.Interval, p.Glob, p.D, p.ReadDelayMs, p.Policy, p.Long)
	if p.Faulty != "" {
		s += " +unreadable:" + p.Faulty
	}
	if p.Keys > 0 {
		s += fmt.Sprintf(" keys=%d", p.Keys)
	}
	if p.NoNL {
		s += " last-line-unterminated"
	}
	if p.Malformed {
		s += " +lines-the-parser-rejects"
	}
	return s
}

func c06Setup(p c06Params) (what string, perKey map[string][2]float64) {
	dir := strings.NewReplacer(" ", "_", "[", "", "]", "").Replace(fmt.Sprintf("c06/%v", p.Files))
	if p.Keys > 0 {
		dir += fmt.Sprintf("-keys%d", p.Keys)
	}
	if p.NoNL {
		dir += "-nonl"
	}
	prefix := ""
	if p.Malformed {
		dir += "-malformed"
		prefix = "INFO|20211002-071209|1|f.go:1|8|10|0|0.1|1h|MAPREDUCE:T|"
	}
	perKey = map[string][2]float64{}
	var paths []string
	for f, n := range p.Files {
		var sb strings.Builder
		for l := 1; l <= n; l++ {
			k := []string{"a", "b"}[(f+l)%2]
			if p.Keys > 0 {
				k = fmt.Sprintf("k%03d", (f*7+l)%p.Keys)
			}
			v := float64(f*10 + l)
			if p.Malformed && (l == 2 || l == n) {
				sb.WriteString(prefix + "k=" + k + "|broken token without an equals sign\n")
			}
			sb.WriteString(fmt.Sprintf("%sk=%s|v=%v\n", prefix, k, v))
			e := perKey[k]
			e[0] += float64(p.Servers)
			e[1] += v * float64(p.Servers)
			perKey[k] = e
		}
		content := sb.String()
		if p.NoNL {
			content = strings.TrimSuffix(content, "\n")
		}
		paths = append(paths, WriteScratch(fmt.Sprintf("%s/f%d.log", dir, f), content))
	}
	if p.Faulty != "" {
		content := map[string]string{"emptygz": "", "badgz": "this is not gzip data\n", "cutgz": "\x1f\x8b\x08"}[p.Faulty]
		// first in the list and first in glob order
		paths = append([]string{WriteScratch(fmt.Sprintf("%s-%s/f-%s.log.gz", dir, p.Faulty, p.Faulty), content)}, paths...)
		if p.Glob {
			for f := range p.Files {
				b, _ := os.ReadFile(paths[f+1])
				WriteScratch(fmt.Sprintf("%s-%s/f%d.log", dir, p.Faulty, f), string(b))
			}
			return Scratch() + "/" + dir + "-" + p.Faulty + "/f*", perKey
		}
	}
	if p.Glob {
		return Scratch() + "/" + dir + "/f*.log", perKey
	}
	return strings.Join(paths, ","), perKey
}

func c06Scenario(p c06Params, idx int) *explore.Scenario {
	what, perKey := c06Setup(p)
	var servers []string
	for i := 0; i < p.Servers; i++ {
		servers = append(servers, fmt.Sprintf("srv%d", i))
	}
	outfile := fmt.Sprintf("%s/c06-%d.csv", Scratch(), idx)
	sc := &explore.Scenario{Name: "c06", Params: p.String(), MaxSteps: 800000, Horizon: 3 * time.Minute, Demotion: true, LongDemotion: p.Long, Policy: vrt.Policy(p.Policy)}
	sc.Run = func(cfg vrt.Config) (string, string, vrt.Result) {
		var out, viol string
		var hooks []vrt.HookEvent
		res := vrt.Run(cfg, func() {
			os.Remove(outfile)
			os.Remove(outfile + ".tmp")
			args := DefaultArgs()
			args.Mode = omode.MapClient
			args.NoColor = true
			args.Quiet = true
			args.LogLevel = "error"
			args.What = what
			args.ServersStr = strings.Join(servers, ",")
			args.QueryStr = "select k,count($line),sum(v) group by k outfile " + outfile + " logformat generickv"
			if p.Malformed {
				args.QueryStr = "select k,count(k),sum(v) from T group by k outfile " + outfile
			}
			if p.Interval > 0 {
				args.QueryStr += fmt.Sprintf(" interval %d", p.Interval)
			}
			r := RunClientBody(ClientOpts{Kind: "map", Args: args, ForceServerless: true, MaprMode: clients.DefaultMode,
				Mutate: func() {
					config.Server.MaxConcurrentCats = p.CatLimit
					if p.ReadDelayMs > 0 {
						vos.S.ReadDelay = time.Duration(p.ReadDelayMs) * time.Millisecond
						vos.S.ReadDelayPrefix = Scratch() + "/c06/"
					}
				}})
			hooks = vrt.W.Hooks
			if r.Err != "" {
				viol = "client error " + r.Err
				return
			}
			b, _ := os.ReadFile(outfile)
			got := map[string][2]float64{}
			var rows []string
			for i, l := range strings.Split(strings.TrimSpace(string(b)), "\n") {
				if i == 0 || l == "" {
					continue
				}
				f := strings.Split(l, ",")
				if len(f) != 3 {
					viol = fmt.Sprintf("malformed result row %q", l)
					return
				}
				var c, s float64
				fmt.Sscanf(f[1], "%g", &c)
				fmt.Sscanf(f[2], "%g", &s)
				got[f[0]] = [2]float64{c, s}
				rows = append(rows, l)
			}
			sort.Strings(rows)
			out = fmt.Sprintf("status=%d %s", r.Status, strings.Join(rows, ";"))
			var keys []string
			for k := range perKey {
				keys = append(keys, k)
			}
			sort.Strings(keys)
			for _, k := range keys {
				if got[k] != perKey[k] {
					viol = fmt.Sprintf("key %s: final result count=%v sum=%v, but the %d server(s) x files %v hold count=%v sum=%v (whole result: %v)",
						k, got[k][0], got[k][1], p.Servers, p.Files, perKey[k][0], perKey[k][1], rows)
					return
				}
			}
			if len(got) != len(perKey) {
				viol = fmt.Sprintf("result has %d groups, want %d: %v", len(got), len(perKey), rows)
				return
			}
			if r.Status != 0 {
				viol = fmt.Sprintf("exit status %d", r.Status)
			}
		})
		if res.Fail != nil {
			viol = res.Fail.Error()
			out = "fail:" + res.Fail.Kind
			hooks = nil
		}
		if viol != "" {
			ncmd := len(p.Files) + 1 // the map command and one read command per file
			if p.Faulty != "" {
				ncmd++ // one more read command for the unreadable file
			}
			if p.Glob {
				ncmd = 2
			}
			viol = c06Classify(hooks, ncmd) + viol
		}
		return out, viol, res
	}
	sc.Filter = func(pt *vrt.Point, alt int) bool {
		if pt.Alts[alt].Kind != vrt.AltRun {
			return true
		}
		switch pt.Infos[alt].Kind {
		case "lock", "unlock", "wgadd", "wgwait":
			return false
		}
		return true
	}
	return sc
}

// c06Classify attributes a violation to the known hand-shake race (C02).
func c06Classify(hooks []vrt.HookEvent, ncmd int) string {
	if s := c07Shutdown(hooks, ncmd); s != "" {
		return s
	}
	return ""
}

// c06AggregatorEndedEarly inspects the trace of a violating schedule: if some
// file reader registered its line channel (send on NextLinesCh) after the
// aggregator of that very server had polled for the last time, the violation
// is the known termination-rule defect of the server-side aggregator.
func c06AggregatorEndedEarly(tr []vrt.TraceEvent) bool {
	// goroutine -> id of the NextLinesCh it polls, and step of its last nextLine call
	chanOf := map[int]string{}
	lastPoll := map[int]int{}
	cur := -1
	for _, e := range tr {
		if e.Name == "hook" && strings.HasSuffix(e.Obj, "Aggregate.nextLine") {
			lastPoll[e.G] = e.Step
			cur = e.G
			continue
		}
		if strings.Contains(e.Obj, "NextLinesCh@") && (e.Op == "select" || e.Op == "recv") && !strings.Contains(e.Obj, ",") {
			if _, ok := lastPoll[e.G]; ok || e.G == cur {
				chanOf[e.G] = e.ObjID
			}
		}
	}
	// the first select of fieldsFromLines (NextLinesCh,ctx.done) precedes the first nextLine call
	for _, e := range tr {
		if e.Op == "select" && strings.HasPrefix(e.Obj, "NextLinesCh@") && strings.Contains(e.Obj, ",") {
			if _, ok := lastPoll[e.G]; ok && chanOf[e.G] == "" {
				chanOf[e.G] = strings.SplitN(e.ObjID, ",", 2)[0]
			}
		}
	}
	for _, e := range tr {
		if e.Op == "send" && strings.HasPrefix(e.Obj, "NextLinesCh@") {
			for g, id := range chanOf {
				if id == e.ObjID && e.Step > lastPoll[g] {
					return true
				}
			}
		}
	}
	return false
}

func c06Sig(msg string, v *explore.Violation) string {
	switch {
	case strings.HasPrefix(msg, "[session-shutdown-began"):
		return "session-shutdown-began-before-all-commands-were-received"
	case strings.HasPrefix(msg, "pool:"):
		return "pooled-object-returned-twice"
	case strings.HasPrefix(msg, "deadlock"):
		return "deadlock"
	case strings.HasPrefix(msg, "horizon"):
		return "client-does-not-terminate"
	case strings.HasPrefix(msg, "panic"):
		return "panic"
	case strings.Contains(msg, "final result count") || strings.Contains(msg, "groups, want"):
		return "lines-missing-from-final-result"
	}
	return "other"
}

func c06ParamSets(tier string) (ps []c06Params, d int) {
	if tier == "quick" {
		return []c06Params{
			{Servers: 2, Files: []int{1}, CatLimit: 2},
			{Servers: 1, Files: []int{1, 1}, CatLimit: 2, Glob: true},
			{Servers: 1, Files: []int{1, 2}, CatLimit: 2},
			{Servers: 2, Files: []int{1}, CatLimit: 2, Policy: 2},
			{Servers: 1, Files: []int{2}, CatLimit: 2, Faulty: "emptygz"},
			{Servers: 2, Files: []int{35}, CatLimit: 2, Keys: 30},
			{Servers: 1, Files: []int{20, 20}, CatLimit: 1, Glob: true, Keys: 25, Interval: 1, ReadDelayMs: 300},
			{Servers: 1, Files: []int{1, 1}, CatLimit: 1, Glob: true, Faulty: "badgz"},
			{Servers: 1, Files: []int{1}, CatLimit: 2, Faulty: "cutgz"},
			{Servers: 1, Files: []int{2}, CatLimit: 2, Interval: 1, ReadDelayMs: 500, D: 2, Long: true},
			// files whose last line is unterminated on a slow disk: the end of the file is reached while the reader's
			// periodic (3 s) check is due
			{Servers: 1, Files: []int{2, 1}, CatLimit: 2, ReadDelayMs: 3100, NoNL: true},
			{Servers: 2, Files: []int{3}, CatLimit: 1, ReadDelayMs: 1600, NoNL: true},
			{Servers: 1, Files: []int{1, 2}, CatLimit: 1, Glob: true, NoNL: true},
			{Servers: 1, Files: []int{3, 2}, CatLimit: 2, Malformed: true},
			{Servers: 2, Files: []int{4}, CatLimit: 1, Malformed: true},
			{Servers: 1, Files: []int{2}, CatLimit: 2, D: 2},
			{Servers: 1, Files: []int{1, 1}, CatLimit: 1, Glob: true, D: 2},
		}, 1
	}
	ps = append(ps, c06Params{Servers: 1, Files: []int{3, 2}, CatLimit: 2, Malformed: true, D: 1}, c06Params{Servers: 2, Files: []int{4}, CatLimit: 1, Malformed: true, D: 1}, c06Params{Servers: 1, Files: []int{2, 2, 3}, CatLimit: 2, Glob: true, Malformed: true, D: 1})
	for _, rd := range []int{0, 1600, 3100} {
		ps = append(ps, c06Params{Servers: 1, Files: []int{2, 1}, CatLimit: 2, ReadDelayMs: rd, NoNL: true, D: 1}, c06Params{Servers: 2, Files: []int{3}, CatLimit: 1, ReadDelayMs: rd, NoNL: true, D: 1},
			c06Params{Servers: 1, Files: []int{1, 2}, CatLimit: 1, Glob: true, ReadDelayMs: rd, NoNL: true, D: 1})
	}
	for _, srv := range []int{1, 2, 3} {
		for _, files := range [][]int{{0}, {1}, {2}, {1, 1}, {2, 1}, {0, 2}, {1, 1, 1}} {
			for _, lim := range []int{1, 2} {
				for _, glob := range []bool{true, false} {
					if srv*len(files) > 4 || (len(files) == 1 && (glob || lim == 1)) {
						continue
					}
					ps = append(ps, c06Params{Servers: srv, Files: files, CatLimit: lim, Glob: glob})
				}
			}
		}
	}
	ps = append(ps, c06Params{Servers: 2, Files: []int{2}, CatLimit: 2, Interval: 1})
	for _, f := range []string{"emptygz", "badgz", "cutgz"} {
		ps = append(ps, c06Params{Servers: 1, Files: []int{2}, CatLimit: 2, Faulty: f}, c06Params{Servers: 1, Files: []int{1, 1}, CatLimit: 1, Glob: true, Faulty: f},
			c06Params{Servers: 2, Files: []int{1}, CatLimit: 1, Faulty: f})
	}
	return ps, 2
}

func init() {
	Register(&Check{
		ID:    "C06",
		Level: "model_checking",
		Rule: "stateless exploration of all schedules within a deviation bound (quick 1, thorough 2) of a complete dmap run: the real MaprClient (cumulative, outfile), one in-process server per entry of the server list (Serverless connector, " +
			"ServerHandler, map command, read commands behind the cat limiter, server Aggregate), the per-server client MaprHandlers, the GlobalGroupSet and the periodic reporter; 1-3 servers x 1-3 files x 0-2 lines (and files of 20-35 lines over 25-30 group keys: more groups than the server's message queue holds), cat limit 1-2, one glob or one command per file, files in the default log format that hold lines the parser rejects with an error, files whose last line is unterminated (also on a disk that takes 1.6-3.1 s per read(2), so that the end of the file coincides with the reader's periodic checks); " +
			"oracle: final count and sum per key == totals over all files of all servers, exit status 0, termination before the horizon; plus the client side alone (two servers' handlers, periodic reporter, final report) under all schedules within 2 deviations: every partial result counted exactly once in the final result; distinct = distinct (scenario, result) pairs",
		Assumptions: []string{
			"code between two synchronisation operations is atomic (data-race freedom; checked by the free-running -race pass)",
			"virtual time advances only when no goroutine is runnable",
			"no preemption alternatives at mutex and wait-group operations",
		},
		QuickBudget: 240 * time.Second,
		Scenarios: func(tier string) (out []*explore.Scenario) {
			ps, _ := c06ParamSets(tier)
			for i, p := range ps {
				out = append(out, c06Scenario(p, 9000+i))
			}
			return
		},
		Run: func(c *Ctx) {
			// the client side alone (handlers of two servers, periodic reporter, final report), 2 deviations
			c05Reporting(c)
			if c.Shard == 0 {
				c05LargeValues(c) // counts >= 1e6, tiny and negative numbers through serialisation and merge
			}
			ps, d := c06ParamSets(c.Tier)
			for i, p := range ps {
				if c.Expired() {
					return
				}
				sc := c06Scenario(p, c.Shard*1000+i)
				dd := d
				if p.D > 0 {
					dd = p.D
				}
				c.Explore(sc, dd, func(msg string, v *explore.Violation) string {
					s := c06Sig(msg, v)
					if s == "lines-missing-from-final-result" {
						_, _, res, _ := explore.Replay(sc, v.Choices)
						if c06AggregatorEndedEarly(res.Trace) {
							return "aggregator-finished-before-a-file-reader-registered"
						}
					}
					return s
				})
				c.Sample(map[string]interface{}{"scenario": p.String(), "deviation_bound": d})
			}
		},
		Replay: func(c *Ctx, rec *ViolationRec) string {
			for _, tier := range []string{"quick", "thorough"} {
				ps, _ := c06ParamSets(tier)
				for i, p := range ps {
					if fmt.Sprintf("%q", p.String()) == string(rec.Params) {
						sc := c06Scenario(p, 8000+i)
						sc.Policy = vrt.Policy(rec.Policy)
						sc.Demotion = rec.Demotion
						_, v, _, div := explore.Replay(sc, rec.Choices)
						if div != "" {
							return "replay diverged: " + div
						}
						return v
					}
				}
			}
			return "unknown scenario " + string(rec.Params)
		},
	})
}
