// Package harness holds the per-property harnesses that run on the controlled
// runtime (built with the rewrite overlay).
package harness

import (
	"encoding/json"

	"github.com/mimecast/dtail/verif/core"
)

type (
	Check        = core.Check
	Ctx          = core.Ctx
	ViolationRec = core.ViolationRec
)

var (
	Register       = core.Register
	Scratch        = core.Scratch
	WriteScratch   = core.WriteScratch
	CleanupScratch = core.CleanupScratch
)

func jsonUnmarshal(b []byte, v interface{}) error { return json.Unmarshal(b, v) }
