package harness

import (
	"fmt"
	"os"
	"regexp"
	"sort"
	"strings"
	"time"

	"github.com/mimecast/dtail/internal/config"
	"github.com/mimecast/dtail/internal/omode"

	"github.com/mimecast/dtail/internal/lcontext"
	"github.com/mimecast/dtail/verif/vos"
	"github.com/mimecast/dtail/verif/vrt"
)

// C12: the server applies exactly the filter and options the user specified.

type c12Case struct {
	Regex  string `json:"regex"`
	Invert bool   `json:"invert"`
	Before int    `json:"before"`
	After  int    `json:"after"`
	Max    int    `json:"max"`
	Plain  bool   `json:"plain"`
	Quiet  bool   `json:"quiet"`
	// Stdin: the input comes from a pipe on standard input (zcat old.log.gz | dgrep -regex ...) instead of a file
	Stdin bool `json:"input_from_stdin_pipe,omitempty"`
	// Big: the probe is the 3000-line file of c12BigProbe (matches only at lines 1500 and 3000), so that large option
	// values have something to act on
	Big bool `json:"big_probe_file,omitempty"`
}

// c12BigProbe: 3000 lines, "HIT" at lines 1500 and 3000 and nowhere else.
func c12BigProbe() (string, []string) {
	var ls []string
	for i := 1; i <= 3000; i++ {
		if i%1500 == 0 {
			ls = append(ls, fmt.Sprintf("HIT %d", i))
		} else {
			ls = append(ls, fmt.Sprintf("n%04d", i))
		}
	}
	return WriteScratch("c12/big.log", strings.Join(ls, "\n")+"\n"), ls
}

// c12BigCases: option values as large as the protocol accepts (up to 100000), end to end over the big probe.
func c12BigCases() (out []c12Case) {
	for _, b := range []int{0, 99, 101, 1023, 1024, 1025, 1499, 2000, 4097, 65537, 100000} {
		for _, a := range []int{0, 1025, 100000} {
			for _, m := range []int{0, 1} {
				out = append(out, c12Case{Regex: "^HIT", Before: b, After: a, Max: m, Plain: true, Big: true})
			}
		}
	}
	return
}

var c12ProbeLines []string

func c12Probe() string {
	if c12ProbeLines == nil {
		toks := []string{"a", " ", ":", ";", ",", "%", "=", "|", ".", "\"", "`", "\t", "regex:", "b"}
		c10Seq(toks, 2, "", func(l string) {
			if !strings.HasPrefix(l, ".") { // a leading '.' is C01's finding, kept out of this check
				c12ProbeLines = append(c12ProbeLines, l)
			}
		})
	}
	return WriteScratch("c12/probe.log", strings.Join(c12ProbeLines, "\n")+"\n")
}

func clamp0(v int) int {
	if v < 0 {
		return 0
	}
	return v
}

func c12Run(c *Ctx, cs c12Case, probe string) {
	if cs.Big {
		saved := c12ProbeLines
		defer func() { c12ProbeLines = saved }()
		probe, c12ProbeLines = c12BigProbe()
	}
	re, err := regexp.Compile(cs.Regex)
	if err != nil {
		return // not accepted by the client either
	}
	noop := cs.Regex == "." || cs.Regex == ".*"
	sel := make([]bool, len(c12ProbeLines))
	nsel := 0
	for i, l := range c12ProbeLines {
		m := re.MatchString(l)
		if cs.Invert {
			m = !m
		}
		if noop {
			m = true
		}
		sel[i] = m
		if m {
			nsel++
		}
	}
	want := c03Reference(sel, clamp0(cs.Before), clamp0(cs.After), clamp0(cs.Max))
	var got ClientResult
	res := vrt.Run(vrt.Config{MaxSteps: 2000000, Horizon: 10 * time.Minute}, func() {
		args := DefaultArgs()
		args.RegexStr = cs.Regex
		args.RegexInvert = cs.Invert
		args.LContext = lcontext.LContext{BeforeContext: cs.Before, AfterContext: cs.After, MaxCount: cs.Max}
		args.Plain = cs.Plain
		args.Quiet = cs.Quiet
		args.NoColor = true
		args.What = probe
		args.LogLevel = "error"
		o := ClientOpts{Kind: "grep", Args: args}
		if cs.Stdin {
			o.Args.What = ""
			o.Mutate = func() {
				vos.S.StdinPipe = true
				vos.S.StdinData = strings.Join(c12ProbeLines, "\n") + "\n"
			}
		}
		got = RunClientBody(o)
	})
	key := ""
	if nsel > 0 && nsel < len(sel) {
		key = fmt.Sprintf("%+v", cs)
	}
	c.Count(key)
	if res.Fail != nil {
		c.Violation("client-run-failed-"+res.Fail.Kind, fmt.Sprintf("case %s: %v", c12Show(cs), res.Fail), c12Short(cs))
		return
	}
	if got.Err != "" {
		c.Violation("client-rejected-regex", fmt.Sprintf("case %+v: %s", cs, got.Err), cs)
		return
	}
	// observe
	var lines []string
	for _, l := range strings.SplitAfter(got.Stdout, "\n") {
		if l == "" {
			continue
		}
		if cs.Plain {
			lines = append(lines, l)
			continue
		}
		if !strings.HasPrefix(l, "REMOTE|") {
			continue // client/server log lines are not content
		}
		f := strings.SplitN(l, "|", 6)
		if len(f) < 6 {
			c.Violation("malformed-record", fmt.Sprintf("case %+v: output record %q", cs, l), cs)
			return
		}
		lines = append(lines, f[5])
	}
	var wantL []string
	for _, i := range want {
		wantL = append(wantL, c12ProbeLines[i]+"\n")
	}
	if strings.Join(lines, "") != strings.Join(wantL, "") || len(lines) != len(wantL) || got.Status != 0 {
		c.Violation("decoded-request-differs-from-encoded", fmt.Sprintf("regex %q invert=%v before=%d after=%d max=%d plain=%v quiet=%v: status %d, %d lines selected end-to-end, %d by the pattern applied directly; first difference: %s",
			c12Short(cs).Regex, cs.Invert, cs.Before, cs.After, cs.Max, cs.Plain, cs.Quiet, got.Status, len(lines), len(wantL), firstDiff(lines, wantL)), c12Short(cs))
	}
}

// c12Short abbreviates a very long pattern for messages and replay files.
func c12Short(cs c12Case) c12Case {
	if len(cs.Regex) > 200 {
		cs.Regex = fmt.Sprintf("%s...(%d bytes: q00000|q00001|...|a;)", cs.Regex[:40], len(cs.Regex))
	}
	return cs
}

func c12Show(cs c12Case) string { return fmt.Sprintf("%+v", c12Short(cs)) }

func firstDiff(a, b []string) string {
	for i := 0; i < len(a) || i < len(b); i++ {
		var x, y string
		if i < len(a) {
			x = a[i]
		}
		if i < len(b) {
			y = b[i]
		}
		if x != y {
			return fmt.Sprintf("at output line %d got %q want %q", i, x, y)
		}
	}
	return "none"
}

// c12Mapr: the filter a dmap client derives from the query's table (and sends
// like any other regex) must select exactly the lines of that table.
func c12Mapr(c *Ctx) {
	mk := func(level, table, kv string) string {
		return level + "|20211002-071209|1|f.go:1|8|10|0|0.1|1h|MAPREDUCE:" + table + "|" + kv
	}
	lines := []string{
		mk("INFO", "T", "k=a|v=1"), mk("INFO", "T", "k=a|v=2"), mk("INFO", "U", "k=a|v=100"), mk("INFO", "TT", "k=a|v=1000"),
		"INFO|20211002-071209|not a mapreduce line mentioning MAPREDUCE:T without the delimiters", mk("INFO", "T", "k=b|v=4"), "k=a|v=7",
		mk("INFO", "t", "k=a|v=50000"),
	}
	path := WriteScratch("c12/mapr.log", strings.Join(lines, "\n")+"\n")
	type mc struct {
		query string
		want  string
	}
	cases := []mc{
		{"select k,count(k),sum(v) from T group by k order by k", "a,2,3.000000\nb,1,4.000000\n"},
		{"select k,count(k),sum(v) from U group by k", "a,1,100.000000\n"},
		{"select k,count(k),sum(v) from TT group by k", "a,1,1000.000000\n"},
		{"select k,count(k),sum(v) from t group by k", "a,2,3.000000\nb,1,4.000000\n"}, // table names are case-insensitive (upper-cased)
		{"select count($line) group by $hostname", "8\n"},
		{"select k,sum(v) where v > 1 logformat generickv", "a,51109.000000\nb,4.000000\n"}, // generickv reads the k=v pairs of every line
	}
	// the output-mode options of a dmap session (its read command follows an option-less 'map' command):
	// in serverless/plain mode no server notice may reach the user's terminal, e.g. the long-line warning
	long := WriteScratch("c12/maprlong.log", mk("INFO", "T", "k=a|v=1")+"\n"+mk("INFO", "T", "k=b|v=2|pad="+strings.Repeat("p", 200))+"\n")
	for _, plain := range []bool{false, true} {
		outfile := fmt.Sprintf("%s/c12-mapr-modes-%d-%v.csv", Scratch(), c.Shard, plain)
		var got ClientResult
		res := vrt.Run(vrt.Config{MaxSteps: 5000000, Horizon: 10 * time.Minute}, func() {
			os.Remove(outfile)
			args := DefaultArgs()
			args.Mode = omode.MapClient
			args.NoColor = true
			args.Plain = plain
			args.Quiet = true
			args.LogLevel = "error"
			args.What = long
			args.QueryStr = "select k,count(k) from T group by k outfile " + outfile
			got = RunClientBody(ClientOpts{Kind: "map", Args: args, Mutate: func() { config.Server.MaxLineLength = 128 }})
		})
		c.Count(fmt.Sprintf("mapr-modes|%v", plain))
		if res.Fail != nil || got.Err != "" || got.Status != 0 || strings.Contains(got.Stdout, "SERVER|") {
			c.Violation("mapreduce-session-modes-differ-from-request", fmt.Sprintf("serverless dmap (plain=%v) over a file with an over-long line: the client asked for serverless/quiet mode, yet a server notice reached its output: %q (status %d, %v %v)",
				plain, got.Stdout, got.Status, got.Err, res.Fail), map[string]bool{"plain": plain})
		}
	}
	for i, m := range cases {
		outfile := fmt.Sprintf("%s/c12-mapr-%d-%d.csv", Scratch(), c.Shard, i)
		var got ClientResult
		res := vrt.Run(vrt.Config{MaxSteps: 5000000, Horizon: 10 * time.Minute}, func() {
			os.Remove(outfile)
			args := DefaultArgs()
			args.Mode = omode.MapClient
			args.NoColor = true
			args.Quiet = true
			args.LogLevel = "error"
			args.What = path
			args.QueryStr = m.query + " outfile " + outfile
			got = RunClientBody(ClientOpts{Kind: "map", Args: args})
		})
		c.Count("mapr|" + m.query)
		b, _ := os.ReadFile(outfile)
		body := string(b)
		if i := strings.Index(body, "\n"); i >= 0 {
			body = body[i+1:] // drop the header line
		}
		rows := strings.Split(strings.TrimSuffix(body, "\n"), "\n")
		sort.Strings(rows)
		wantRows := strings.Split(strings.TrimSuffix(m.want, "\n"), "\n")
		sort.Strings(wantRows)
		if res.Fail != nil || got.Err != "" || got.Status != 0 || strings.Join(rows, "\n") != strings.Join(wantRows, "\n") {
			c.Violation("mapreduce-filter-differs-from-query", fmt.Sprintf("dmap query %q over a log with tables T, U, TT and other lines: result rows %q, want %q (status %d, %v %v)",
				m.query, rows, wantRows, got.Status, got.Err, res.Fail), map[string]string{"query": m.query})
		}
	}
}

func c12Cases(thorough bool) (out []c12Case) {
	toks := []string{"a", " ", ":", ";", ",", "%", "=", "|", "é", "€", "¬", "\\|", ".", ".*", "^", "$", "\"", "`", "base64%", "regex:", "\t", "b"}
	n := 2
	if thorough {
		n = 3
	}
	var res []string
	c10Seq(toks, n, "", func(r string) {
		if r != "" {
			res = append(res, r)
		}
	})
	// shapes that regexp (or an optimisation in front of it) may treat specially: literals anchored at one or both
	// ends, flags, alternation under anchors, word boundaries, repetition, classes
	res = append(res, "^a$", "^a b$", `\Aa\z`, "^ab", "ab$", "^$", "(?i)A", "(?i)^A$", "(?m)^a$", "(?s)a.b", "^a|b$", `\ba\b`, "a{2}", "[ab]", "a+", "a?b", "^a:;,%=é$", "^(a)$", "(?:^a$)", `^\|$`, `\.`, "a*")
	// long patterns (a user-built alternation): lengths around the sizes of the buffers on the way (4 KiB, 32 KiB
	// transport reads, 64 KiB); only the LAST alternative matches anything in the probe file
	for _, n := range []int{1000, 3060, 4100, 8200, 33000, 70000} {
		var sb strings.Builder
		for i := 0; sb.Len() < n; i++ {
			fmt.Fprintf(&sb, "q%05d|", i)
		}
		res = append(res, sb.String()+"a;")
	}
	small := [][3]int{{0, 0, 0}, {1, 0, 0}, {0, 7, 1}, {-1, -1, -1}}
	for _, r := range res {
		for _, inv := range []bool{false, true} {
			for i, l := range small {
				out = append(out, c12Case{Regex: r, Invert: inv, Before: l[0], After: l[1], Max: l[2], Plain: i%2 == 0, Quiet: i%3 == 0})
			}
		}
	}
	// the same request with the input piped into standard input (serverless mode reads the pipe instead of a file)
	for _, r := range []string{"a", "^a", "a |:", "=|%", ".", "a;$", "^regex:", "(?i)A"} {
		for _, inv := range []bool{false, true} {
			for i, l := range small {
				out = append(out, c12Case{Regex: r, Invert: inv, Before: l[0], After: l[1], Max: l[2], Plain: i%2 == 0, Quiet: i%3 == 0, Stdin: true})
			}
		}
	}
	vals := []int{0, 1, 7, -1}
	for _, r := range []string{"a", "a |:", "^regex:", "=|%", "."} {
		for _, inv := range []bool{false, true} {
			for _, b := range vals {
				for _, a := range vals {
					for _, m := range vals {
						for mode := 0; mode < 4; mode++ {
							out = append(out, c12Case{Regex: r, Invert: inv, Before: b, After: a, Max: m, Plain: mode&1 != 0, Quiet: mode&2 != 0})
						}
					}
				}
			}
		}
	}
	return
}

func init() {
	Register(&Check{
		ID:    "C12",
		Level: "exploration",
		Rule: "regexes = all sequences of <=2 (quick) / <=3 (thorough) tokens over 22 tokens (space, ':', ';', ',', '%', '=', '|', non-ASCII incl. bytes 0xAC, anchors, quotes, 'base64%', 'regex:', tab) that compile, " +
			"x invert x 4 option sets, plus 5 regexes x invert x {0,1,7,-1}^3 before/after/max x plain x quiet; each case runs the real GrepClient -> serverless connector -> ServerHandler -> reader end to end " +
			"under the controlled scheduler on a ~200-line probe file (all <=2-token lines over the ASCII part of the alphabet); oracle: lines output == lines selected by regexp.MustCompile(pattern) applied directly " +
			"(with invert and the grep-context reference of C03; negative option values mean 'not set'); plus before in {0,99,101,1023,1024,1025,1499,2000,4097,65537,100000} x after in {0,1025,100000} x max in {0,1} end to end over a 3000-line file with two matching lines; plus 6 dmap sessions whose line filter is derived from the query's table (tables T, U, TT, lower-case spelling, no table, generickv) over a log mixing tables and foreign lines; non-trivial = the pattern selects some but not all probe lines",
		Assumptions: []string{"canonical schedule; single file per session (so C02's findings cannot leak in); probe lines avoid byte 0xAC and a leading '.' (C01's findings)"},
		Run: func(c *Ctx) {
			probe := c12Probe()
			if c.Shard == 0 {
				c12Mapr(c)
			}
			for _, cs := range append(c12BigCases(), c12Cases(c.Thorough())...) {
				if !c.Mine() {
					continue
				}
				if c.Expired() {
					return
				}
				c12Run(c, cs, probe)
				if cs.Regex == "a |:" && cs.Before == 1 && cs.After == 7 {
					c.Sample(cs)
				}
			}
		},
		Replay: func(c *Ctx, rec *ViolationRec) string {
			var cs c12Case
			if err := jsonUnmarshal(rec.Input, &cs); err != nil {
				return "cannot decode input"
			}
			c12Run(c, cs, c12Probe())
			if len(c.Res.Violations) > 0 {
				return c.Res.Violations[0].Msg
			}
			return ""
		},
	})
}
