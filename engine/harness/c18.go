package harness

import (
	"fmt"
	"net"
	"os"
	"path/filepath"
	"regexp"
	"runtime"
	"sort"
	"strings"
	"sync/atomic"
	"time"

	"github.com/mimecast/dtail/internal/clients"
	"github.com/mimecast/dtail/internal/config"
	"github.com/mimecast/dtail/internal/discovery"
	"github.com/mimecast/dtail/internal/source"
	"github.com/mimecast/dtail/verif/explore"
	"github.com/mimecast/dtail/verif/vrt"
	"golang.org/x/crypto/ssh"
)

// C18: server discovery yields each wanted server exactly once.

type c18Case struct {
	Source  string   `json:"source"` // comma | file | module
	Entries []string `json:"entries"`
	Filter  string   `json:"filter"`
}

func c18Scenario(cs c18Case) *explore.Scenario {
	var path string
	switch cs.Source {
	case "file":
		path = WriteScratch("c18/"+strings.Join(cs.Entries, "_")+".txt", strings.Join(cs.Entries, "\n")+"\n")
	case "file-no-final-newline":
		path = WriteScratch("c18/"+strings.Join(cs.Entries, "_")+".nonl.txt", strings.Join(cs.Entries, "\n"))
	case "file-crlf":
		path = WriteScratch("c18/"+strings.Join(cs.Entries, "_")+".crlf.txt", strings.Join(cs.Entries, "\r\n")+"\r\n")
	case "file-symlink", "file-symlink-chain":
		// the server file reached through a symbolic link (configuration management, ConfigMap mounts)
		target := WriteScratch("c18/"+strings.Join(cs.Entries, "_")+".target.txt", strings.Join(cs.Entries, "\n")+"\n")
		path = target + "." + cs.Source
		os.Remove(path)
		if cs.Source == "file-symlink" {
			os.Symlink(target, path)
		} else {
			mid := target + ".mid"
			os.Remove(mid)
			os.Symlink(filepath.Base(target), mid) // relative link
			os.Symlink(mid, path)
		}
	}
	want := map[string]bool{}
	var re *regexp.Regexp
	if cs.Filter != "" {
		re = regexp.MustCompile(cs.Filter[1 : len(cs.Filter)-1])
	}
	for _, e := range cs.Entries {
		if re == nil || re.MatchString(e) {
			want[e] = true
		}
	}
	var wantL []string
	for e := range want {
		wantL = append(wantL, e)
	}
	sort.Strings(wantL)
	sc := &explore.Scenario{Name: "c18", Params: fmt.Sprintf("%v", cs), Agg: "c18:" + cs.Source, MaxSteps: 100000, Horizon: time.Hour}
	// the discovery code is sequential: branch on the random answers only
	sc.Filter = func(p *vrt.Point, alt int) bool { return p.Env }
	sc.Run = func(cfg vrt.Config) (string, string, vrt.Result) {
		var got []string
		res := vrt.Run(cfg, func() {
			args := DefaultArgs()
			args.Logger = "none"
			args.LogLevel = "error"
			StartEnv(source.Client, &args, nil)
			var d *discovery.Discovery
			switch cs.Source {
			case "comma":
				d = discovery.New("", strings.Join(cs.Entries, ","), discovery.Shuffle)
			case "file", "file-no-final-newline", "file-crlf", "file-symlink", "file-symlink-chain":
				d = discovery.New("", path, discovery.Shuffle)
			case "module":
				discovery.VerifServers = cs.Entries
				d = discovery.New("verif", cs.Filter, discovery.Shuffle)
			}
			got = d.ServerList()
		})
		out := strings.Join(got, ",")
		viol := ""
		if res.Fail != nil {
			return "fail:" + res.Fail.Kind, res.Fail.Error(), res
		}
		s := append([]string{}, got...)
		sort.Strings(s)
		if strings.Join(s, "\x00") != strings.Join(wantL, "\x00") {
			viol = fmt.Sprintf("entries %q filter %q via %s: contacted %q, want exactly the distinct matching entries %q", cs.Entries, cs.Filter, cs.Source, got, wantL)
		}
		return out, viol, res
	}
	return sc
}

// c18ClientContacts runs a real dcat over the given server list with every
// server in-process and returns how many times each server delivered the file.
func c18ClientContacts(list []string, path string) (map[string]int, string) {
	got := map[string]int{}
	var errs string
	res := vrt.Run(vrt.Config{MaxSteps: 5000000, Horizon: 10 * time.Minute}, func() {
		args := DefaultArgs()
		args.NoColor = true
		args.Quiet = true
		args.LogLevel = "error"
		args.What = path
		args.ServersStr = strings.Join(list, ",")
		r := RunClientBody(ClientOpts{Kind: "cat", Args: args, ForceServerless: true})
		if r.Err != "" || r.Status != 0 {
			errs = fmt.Sprintf("client error %q status %d", r.Err, r.Status)
		}
		for _, l := range strings.Split(r.Stdout, "\n") {
			f := strings.SplitN(l, "|", 6)
			if len(f) == 6 && f[0] == "REMOTE" {
				got[f[1]]++
			}
		}
	})
	if res.Fail != nil {
		errs = res.Fail.Error()
	}
	return got, errs
}

// dropListener accepts TCP connections, counts them and closes them at once
// (a server that is unreachable at the SSH level).
type dropListener struct {
	l net.Listener
	n int32
}

func newDropListener() *dropListener {
	l, err := net.Listen("tcp", "127.0.0.1:0")
	if err != nil {
		panic(err)
	}
	d := &dropListener{l: l}
	go func() {
		for {
			c, err := l.Accept()
			if err != nil {
				return
			}
			atomic.AddInt32(&d.n, 1)
			c.Close()
		}
	}()
	return d
}

func (d *dropListener) port() int     { return d.l.Addr().(*net.TCPAddr).Port }
func (d *dropListener) contacts() int { return int(atomic.LoadInt32(&d.n)) }

// c18Reconnect: a following client (dtail) re-connects after a connection loss;
// the servers it contacts must still be exactly the listed entries.
func c18Reconnect(c *Ctx) {
	for _, nEntries := range []int{1, 2} {
		var listed []*dropListener
		var entries []string
		for i := 0; i < nEntries; i++ {
			d := newDropListener()
			listed = append(listed, d)
			entries = append(entries, fmt.Sprintf("127.0.0.1:%d", d.port()))
		}
		other := newDropListener() // listens on the client's DEFAULT port: not in the list
		var startErr string
		res := vrt.Run(vrt.Config{MaxSteps: 5000000, Horizon: 10 * time.Minute}, func() {
			args := DefaultArgs()
			args.NoColor = true
			args.Quiet = true
			args.LogLevel = "error"
			args.What = "/nonexistent/x.log"
			args.ServersStr = strings.Join(entries, ",")
			args.SSHPort = other.port()
			args.SSHAuthMethods = []ssh.AuthMethod{ssh.Password("x")}
			env := StartEnv(source.Client, &args, nil)
			cl, err := clients.NewTailClient(args)
			if err != nil {
				startErr = err.Error()
				return
			}
			done := vrt.Make[int]("clientDone", 1)
			stats := vrt.Make[string]("statsCh", 0)
			vrt.Go("dtail", func() { done.Send("done", cl.Start(env.Ctx, stats)) })
			vrt.Sleep("follow-for-a-while", 9*time.Second) // re-connects happen every 2 s
			env.Cancel()
			done.Recv("wait")
		})
		c.Count(fmt.Sprintf("reconnect|%d", nEntries))
		var got []int
		for _, d := range listed {
			got = append(got, d.contacts())
			d.l.Close()
		}
		o := other.contacts()
		other.l.Close()
		bad := startErr != "" || res.Fail != nil || o != 0
		for _, n := range got {
			if n < 2 {
				bad = true
			}
		}
		if bad {
			c.Violation("reconnect-contacts-wrong-server", fmt.Sprintf("dtail --servers %s (default port %d) following for 9 s while every connection is dropped: contacts per listed entry %v (want >= 2 each: first contact and re-connects), contacts of the unlisted 127.0.0.1:<default port> %d (want 0) %s %v",
				strings.Join(entries, ","), other.port(), got, o, startErr, res.Fail), entries)
		}
	}
}

// c18ConfiguredPort: entries without a port are contacted at the CONFIGURED port (--port / Common.SSHPort), entries
// with a port at their own; nobody else is contacted (in particular not the built-in default port).
func c18ConfiguredPort(c *Ctx) {
	conf := newDropListener() // the configured port
	own := newDropListener()  // an entry with its own port
	var deflt *dropListener   // the built-in default port, if it is free on this machine
	if l, err := net.Listen("tcp", fmt.Sprintf("127.0.0.1:%d", config.DefaultSSHPort)); err == nil {
		deflt = &dropListener{l: l}
		go func() {
			for {
				cn, err := l.Accept()
				if err != nil {
					return
				}
				atomic.AddInt32(&deflt.n, 1)
				cn.Close()
			}
		}()
	}
	entries := []string{"127.0.0.1", fmt.Sprintf("127.0.0.1:%d", own.port())}
	var startErr string
	res := vrt.Run(vrt.Config{MaxSteps: 5000000, Horizon: 3 * time.Minute}, func() {
		args := DefaultArgs()
		args.NoColor = true
		args.Quiet = true
		args.LogLevel = "error"
		args.What = "/nonexistent/x.log"
		args.ServersStr = strings.Join(entries, ",")
		args.SSHPort = conf.port()
		args.SSHAuthMethods = []ssh.AuthMethod{ssh.Password("x")}
		env := StartEnv(source.Client, &args, nil)
		cl, err := clients.NewCatClient(args)
		if err != nil {
			startErr = err.Error()
			return
		}
		cl.Start(env.Ctx, vrt.Make[string]("statsCh", 0))
	})
	c.Count("configured-port")
	nd := 0
	if deflt != nil {
		nd = deflt.contacts()
		deflt.l.Close()
	}
	nc, no := conf.contacts(), own.contacts()
	conf.l.Close()
	own.l.Close()
	if startErr != "" || res.Fail != nil || nc != 1 || no != 1 || nd != 0 {
		c.Violation("entry-without-port-not-contacted-at-the-configured-port", fmt.Sprintf("dcat --port %d --servers %s: contacts at the configured port %d (want 1), at the entry's own port %d (want 1), at the built-in default port %d: %d (want 0) %s %v",
			conf.port(), strings.Join(entries, ","), nc, no, config.DefaultSSHPort, nd, startErr, res.Fail), entries)
	}
}

// c18FromPipe: the server list comes from something that can be read only once - a pipe (dcat --servers <(gen-hosts),
// path /dev/fd/N): every entry must still be contacted exactly once.
func c18FromPipe(c *Ctx) {
	var listed []*dropListener
	var entries []string
	for i := 0; i < 3; i++ {
		d := newDropListener()
		listed = append(listed, d)
		entries = append(entries, fmt.Sprintf("127.0.0.1:%d", d.port()))
	}
	var startErr string
	res := vrt.Run(vrt.Config{MaxSteps: 5000000, Horizon: 3 * time.Minute}, func() {
		r, w, err := os.Pipe()
		if err != nil {
			startErr = err.Error()
			return
		}
		defer r.Close()
		w.Write([]byte(strings.Join(entries, "\n") + "\n"))
		w.Close()
		args := DefaultArgs()
		args.NoColor = true
		args.Quiet = true
		args.LogLevel = "error"
		args.What = "/nonexistent/x.log"
		args.ServersStr = fmt.Sprintf("/dev/fd/%d", r.Fd())
		args.SSHAuthMethods = []ssh.AuthMethod{ssh.Password("x")}
		env := StartEnv(source.Client, &args, nil)
		cl, err := clients.NewCatClient(args)
		if err != nil {
			startErr = err.Error()
			return
		}
		cl.Start(env.Ctx, vrt.Make[string]("statsCh", 0))
	})
	c.Count("server-list-from-pipe")
	var got []int
	bad := startErr != "" || res.Fail != nil
	for _, d := range listed {
		got = append(got, d.contacts())
		if d.contacts() != 1 {
			bad = true
		}
		d.l.Close()
	}
	if bad {
		c.Violation("servers-from-a-pipe-not-contacted", fmt.Sprintf("dcat --servers /dev/fd/N (a pipe holding %v): contacts per entry %v, want exactly 1 each %s %v", entries, got, startErr, res.Fail), entries)
	}
}

// c18Thousands: a server file / comma list with thousands of entries (duplicates scattered, host:port forms); one
// execution each (the shuffle takes its first answer everywhere).
func c18Thousands(c *Ctx) {
	var entries []string
	for i := 0; i < 3000; i++ {
		e := fmt.Sprintf("h%04d.example.org", i%2500)
		if i%7 == 0 {
			e += fmt.Sprintf(":%d", 2200+i%3)
		}
		entries = append(entries, e)
	}
	c18BigList(c, "thousands", entries)
	// a whole fleet of systematically named servers (400000 distinct names that differ in a few digits, some listed
	// twice): were two different names ever taken for the same server - by a hash, a truncated key, a normalisation -
	// some would be missing here (a 32-bit digest of 400000 names collides ~18 times)
	entries = nil
	for dc := 1; dc <= 4; dc++ {
		for i := 0; i < 100000; i++ {
			e := fmt.Sprintf("web%05d.dc%d.example.org:2222", i, dc)
			entries = append(entries, e)
			if i%1000 == 0 {
				entries = append(entries, e)
			}
		}
	}
	c18BigList(c, "fleet", entries)
}

func c18BigList(c *Ctx, name string, entries []string) {
	want := map[string]bool{}
	for _, e := range entries {
		want[e] = true
	}
	path := WriteScratch("c18/"+name+".txt", strings.Join(entries, "\n")+"\n")
	for _, src := range []string{"file", "comma"} {
		var got []string
		res := vrt.Run(vrt.Config{MaxSteps: 50000000, Horizon: time.Hour}, func() {
			args := DefaultArgs()
			args.Logger = "none"
			args.LogLevel = "error"
			StartEnv(source.Client, &args, nil)
			arg := path
			if src == "comma" {
				arg = strings.Join(entries, ",")
			}
			order := discovery.Shuffle
			if len(entries) > 10000 {
				order = discovery.Shuffle + 1 // listed order: the shuffle is quadratic in the list length
			}
			got = discovery.New("", arg, order).ServerList()
		})
		c.Count(name + "|" + src)
		seen := map[string]int{}
		for _, g := range got {
			seen[g]++
		}
		bad := ""
		for e := range want {
			if seen[e] != 1 {
				bad = fmt.Sprintf("entry %q returned %d times", e, seen[e])
				break
			}
		}
		if res.Fail != nil || len(got) != len(want) || bad != "" {
			c.Violation("wrong-server-set", fmt.Sprintf("%s with %d entries (%d distinct, list %q): %d servers returned %s %v", src, len(entries), len(want), name, len(got), bad, res.Fail), map[string]string{"source": src, "list": name})
		}
	}
}

// c18ManyUnreachable: more servers than the client connects to at a time (ConnectionsPerCPU x CPUs), all of them
// unreachable at the SSH level: every listed entry must still be contacted exactly once and dcat must end.
func c18ManyUnreachable(c *Ctx) {
	for _, extra := range []int{-1, 1, 5} {
		n := runtime.NumCPU() + extra
		var listed []*dropListener
		var entries []string
		for i := 0; i < n; i++ {
			d := newDropListener()
			listed = append(listed, d)
			entries = append(entries, fmt.Sprintf("127.0.0.1:%d", d.port()))
		}
		var startErr string
		res := vrt.Run(vrt.Config{MaxSteps: 5000000, Horizon: 3 * time.Minute}, func() {
			args := DefaultArgs()
			args.NoColor = true
			args.Quiet = true
			args.LogLevel = "error"
			args.What = "/nonexistent/x.log"
			args.ServersStr = strings.Join(entries, ",")
			args.ConnectionsPerCPU = 1
			args.SSHAuthMethods = []ssh.AuthMethod{ssh.Password("x")}
			env := StartEnv(source.Client, &args, nil)
			cl, err := clients.NewCatClient(args)
			if err != nil {
				startErr = err.Error()
				return
			}
			stats := vrt.Make[string]("statsCh", 0)
			cl.Start(env.Ctx, stats)
		})
		c.Count(fmt.Sprintf("many-unreachable|%d", n))
		var wrong []string
		for i, d := range listed {
			if k := d.contacts(); k != 1 {
				wrong = append(wrong, fmt.Sprintf("%s contacted %d times", entries[i], k))
			}
			d.l.Close()
		}
		if startErr != "" || res.Fail != nil || len(wrong) > 0 {
			if len(wrong) > 6 {
				wrong = append(wrong[:6], fmt.Sprintf("... (%d entries in all)", len(wrong)))
			}
			msg := ""
			if res.Fail != nil {
				msg = res.Fail.Kind
			}
			c.Violation("servers-not-contacted-when-many-are-unreachable", fmt.Sprintf("dcat with %d listed servers that all drop the connection, %d connections at a time: %v %s %s (want every entry contacted exactly once and the client to end)",
				n, runtime.NumCPU(), wrong, startErr, msg), map[string]int{"servers": n})
		}
	}
}

func c18Lists(maxLen int) (out [][]string) {
	alpha := []string{"a", "b", "c:2222", "a.dom"}
	var rec func(cur []string)
	rec = func(cur []string) {
		if len(cur) > 0 {
			out = append(out, append([]string{}, cur...))
		}
		if len(cur) == maxLen {
			return
		}
		for _, e := range alpha {
			rec(append(cur, e))
		}
	}
	rec(nil)
	return
}

func init() {
	Register(&Check{
		ID:    "C18",
		Level: "model_checking",
		Rule: "a fleet list of 400000 systematically named servers (400 listed twice) as file and comma list in listed order; all server lists of length 1..5 (quick) / 1..6 (thorough) over {a, b, c:2222, a.dom} (so all duplicate patterns), given as comma list, as server file (newline-terminated, without final newline, CRLF, reached through a symbolic link and through a chain of two) and through a discovery " +
			"module with the filters none, /a/, /^c/, /x/, /./; all lists of length 1..3 over {a, the EMPTY entry, b:2222} as comma list and through the module with the filters none, //, /./, /.*/, /^$/, /a/, /.?/, /^/ (an empty entry matches everything but /./); every random number the shuffle draws is an environment choice and ALL answer sequences are explored " +
			"(complete tree, no bound); oracle: returned multiset == distinct entries matching the filter; plus, end to end, a real dcat over every list of <=3 entries (every entry an in-process server): each distinct server delivers the file exactly once; and a following client whose connections are all dropped re-connects only to the listed host:port entries (real TCP listeners, virtual time); a server file and a comma list of 3000 entries (2500 distinct); entries with and without a port under a non-default configured port; a server list that can be read only once (a pipe, /dev/fd/N); and a dcat over more unreachable servers than it connects to at a time (CPUs-1, +1, +5 entries, one connection per CPU) contacts each exactly once and ends; distinct = distinct (case, returned order) pairs",
		Assumptions: []string{"math/rand is replaced by an explorer-owned choice; regexp is trusted"},
		Run: func(c *Ctx) {
			n := 5
			if c.Thorough() {
				n = 6
			}
			lists := c18Lists(n)
			for _, l := range lists {
				var cases []c18Case
				cases = append(cases, c18Case{"comma", l, ""}, c18Case{"file", l, ""}, c18Case{"file-no-final-newline", l, ""}, c18Case{"file-crlf", l, ""},
					c18Case{"file-symlink", l, ""}, c18Case{"file-symlink-chain", l, ""})
				for _, f := range []string{"", "/a/", "/^c/", "/x/", "/./"} {
					cases = append(cases, c18Case{"module", l, f})
				}
				for _, cs := range cases {
					if !c.Mine() {
						continue
					}
					if c.Expired() {
						return
					}
					sc := c18Scenario(cs)
					// shard inside the process family, not inside the tiny tree
					sub := *c
					sub.Shard, sub.NShards = 0, 1
					sub.Explore(sc, -1, func(msg string, v *explore.Violation) string {
						if strings.HasPrefix(msg, "panic") {
							return "panic"
						}
						return "wrong-server-set"
					})
					if len(l) == 3 && cs.Source == "module" && cs.Filter == "/a/" {
						c.Sample(cs)
					}
				}
			}
			// lists with EMPTY entries ("a,,b", a trailing comma, the empty list) and the filters that match "everything":
			// an empty entry is an entry like any other - it matches //, /.*/ and /^$/ but not /./
			{
				var small [][]string
				var rec func(cur []string)
				rec = func(cur []string) {
					if len(cur) > 0 {
						small = append(small, append([]string{}, cur...))
					}
					if len(cur) == 3 {
						return
					}
					for _, e := range []string{"a", "", "b:2222"} {
						rec(append(cur, e))
					}
				}
				rec(nil)
				for _, l := range small {
					cases := []c18Case{{"comma", l, ""}}
					for _, f := range []string{"", "//", "/./", "/.*/", "/^$/", "/a/", "/.?/", "/^/"} {
						cases = append(cases, c18Case{"module", l, f})
					}
					for _, cs := range cases {
						if !c.Mine() {
							continue
						}
						sub := *c
						sub.Shard, sub.NShards = 0, 1
						sub.Explore(c18Scenario(cs), -1, func(msg string, v *explore.Violation) string {
							if strings.HasPrefix(msg, "panic") {
								return "panic"
							}
							return "wrong-server-set"
						})
					}
				}
			}
			if c.Shard == 0 {
				c18Reconnect(c)
				c18ManyUnreachable(c)
				c18Thousands(c)
				c18FromPipe(c)
				c18ConfiguredPort(c)
			}
			// end to end: the set of servers a real client actually contacts (host names without port;
			// the serverless connector gives every entry its own in-process server named after the entry)
			probe := WriteScratch("c18/probe.log", "only line\n")
			for _, l := range c18Lists(3) {
				if !c.Mine() {
					continue
				}
				var hosts []string
				for _, e := range l {
					hosts = append(hosts, strings.NewReplacer(":2222", "", ".dom", "").Replace(e)+"x")
				}
				want := map[string]int{}
				for _, h := range hosts {
					want[h] = 1
				}
				got, errs := c18ClientContacts(hosts, probe)
				c.Count("e2e|" + strings.Join(hosts, ","))
				if errs != "" || fmt.Sprint(got) != fmt.Sprint(want) {
					c.Violation("client-contacts-wrong-server-set", fmt.Sprintf("dcat --servers %s: servers that delivered the file (with multiplicity) %v, want each distinct entry exactly once %v %s",
						strings.Join(hosts, ","), got, want, errs), hosts)
				}
			}
		},
		Replay: func(c *Ctx, rec *ViolationRec) string {
			return "re-run bin/check C18 quick (scenario parameters are embedded in the message)"
		},
	})
}
