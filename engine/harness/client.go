package harness

import (
	"fmt"

	"github.com/mimecast/dtail/internal/clients"
	"github.com/mimecast/dtail/internal/config"
	"github.com/mimecast/dtail/internal/source"
	"github.com/mimecast/dtail/verif/vrt"
)

// ClientResult is what a user observes from one run of a dtail client binary.
type ClientResult struct {
	Stdout string
	Status int
	Err    string
}

// ClientOpts tunes RunClientBody.
type ClientOpts struct {
	Kind string // cat | grep | tail | map
	Args config.Args
	// Mutate adjusts the (server) configuration after config.Setup.
	Mutate func()
	// Consumer, if set, makes stdout a blocking pipe of the given capacity
	// consumed by this function (run as its own goroutine).
	PipeCap  int
	Consumer func(pipe *vrt.Chan[string], sink *vrt.StdoutSink)
	MaprMode clients.MaprClientMode
	// Before runs inside the execution before the client is created.
	Before func()
	// ForceServerless makes every server of ServersStr an in-process server
	// (its own Serverless connector and ServerHandler).
	ForceServerless bool
}

// RunClientBody is the body of main() of dcat/dgrep/dtail/dmap, to be called
// inside vrt.Run: config.Setup, dlog.Start, New*Client, Start, cancel, wait.
// The observation is taken where the user takes it: when main would exit.
func RunClientBody(o ClientOpts) ClientResult {
	args := o.Args
	env := StartEnv(source.Client, &args, o.Mutate)
	sink := vrt.Out()
	if o.Consumer != nil {
		sink.Pipe = vrt.Make[string]("stdoutPipe", o.PipeCap)
		vrt.Go("stdout-consumer", func() { o.Consumer(sink.Pipe, sink) })
	}
	if o.Before != nil {
		o.Before()
	}
	if o.ForceServerless {
		args.Serverless = true
	}
	var cl clients.Client
	var err error
	switch o.Kind {
	case "cat":
		cl, err = clients.NewCatClient(args)
	case "grep":
		cl, err = clients.NewGrepClient(args)
	case "tail":
		cl, err = clients.NewTailClient(args)
	case "map":
		cl, err = clients.NewMaprClient(args, o.MaprMode)
	default:
		err = fmt.Errorf("unknown client kind %q", o.Kind)
	}
	if err != nil {
		return ClientResult{Err: err.Error(), Status: -1}
	}
	stats := vrt.Make[string]("statsCh", 0)
	status := cl.Start(env.Ctx, stats)
	env.Cancel()
	// (main waits for the loggers here, then exits)
	env.wg.Wait()
	return ClientResult{Stdout: sink.Buf.String(), Status: status}
}
