package harness

import (
	"encoding/base64"
	"fmt"
	"strings"
	"time"

	"github.com/mimecast/dtail/internal/config"
	"github.com/mimecast/dtail/internal/server/handlers"
	"github.com/mimecast/dtail/internal/source"
	userserver "github.com/mimecast/dtail/internal/user/server"
	"github.com/mimecast/dtail/verif/explore"
	"github.com/mimecast/dtail/verif/vos"
	"github.com/mimecast/dtail/verif/vrt"
)

// C10: no client-supplied bytes can crash the server.

type c10Case struct {
	Kind    string `json:"kind"`    // command | raw | health
	Payload string `json:"payload"` // decoded command (kind command/health) or raw bytes
	Split   int    `json:"split"`   // write in two chunks at this byte offset (0 = one write)
	// PauseMs: the commands of a raw payload arrive that many (virtual) milliseconds apart, and every read(2) of a
	// data file takes 1 ms, so that earlier commands are at work when later ones arrive
	PauseMs int `json:"pause_ms,omitempty"`
	// LogLevel: the server's log level ("" = error); at quieter levels the notices the server sends back are empty
	LogLevel string `json:"server_log_level,omitempty"`
}

func c10Wire(cs c10Case) []byte {
	if cs.Kind == "raw" {
		return []byte(cs.Payload)
	}
	return WireCommand(cs.Payload)
}

// c10Run feeds one input to a fresh session; afterwards a well-behaved session
// on the same limiters must still deliver a file.  Returns a violation text.
func c10Run(cs c10Case, probe string) (viol string, trunc bool) {
	res := vrt.Run(vrt.Config{MaxSteps: 60000, Horizon: 10 * time.Minute}, func() {
		args := DefaultArgs()
		args.Logger = "none"
		args.LogLevel = "error"
		if cs.LogLevel != "" {
			args.LogLevel = cs.LogLevel
		}
		StartEnv(source.Server, &args, func() {
			config.Server.MaxLineLength = 64
			if cs.PauseMs > 0 {
				vos.S.ReadDelay = time.Millisecond
				vos.S.ReadDelayPrefix = Scratch() + "/c10/"
			}
		})
		cat := vrt.Make[struct{}]("catLimiter", 2)
		tail := vrt.Make[struct{}]("tailLimiter", 2)
		var att *Session
		if cs.Kind == "health" {
			u, _ := userserver.New(config.HealthUser, "harness")
			att = &Session{H: handlers.NewHealthHandler(u), Name: "health", AckSyn: true, Done: vrt.Make[struct{}]("sessionDone:health", 0)}
		} else {
			att = NewServerSession("attacker", "verifuser", cat, tail)
		}
		vrt.Go("pump", func() { att.Pump(32 * 1024) })
		w := c10Wire(cs)
		// the transport hands the handler slices of ONE buffer that it re-uses (io.Copy does)
		tbuf := make([]byte, 32*1024)
		feed := func(b []byte) {
			for len(b) > 0 {
				n := copy(tbuf, b)
				att.H.Write(tbuf[:n])
				b = b[n:]
			}
		}
		if cs.PauseMs > 0 {
			for _, part := range strings.SplitAfter(string(w), ";") {
				if part != "" {
					feed([]byte(part))
					vrt.Sleep("between-commands", time.Duration(cs.PauseMs)*time.Millisecond)
				}
			}
		} else if cs.Split > 0 && cs.Split < len(w) {
			feed(w[:cs.Split])
			feed(w[cs.Split:])
		} else {
			feed(w)
		}
		vrt.Sleep("attack", 12*time.Second)
		if cs.Split > 0 && strings.HasPrefix(cs.Payload, "cat ") {
			// a well-formed command must work however the transport segments it
			got := ""
			for _, m := range att.Lines() {
				if f := strings.SplitN(m, "|", 6); len(f) == 6 {
					got += f[5]
				}
			}
			if got != "probe line 1\nprobe line 2\n" {
				vrt.Failf("segmented", "a well-formed cat command split across two transport writes at byte %d was not executed: delivered %q", cs.Split, got)
			}
		}
		// the well-behaved session of another user
		vic := NewServerSession("victim", "otheruser", cat, tail)
		vrt.Go("pump", func() { vic.Pump(32 * 1024) })
		vic.H.Write(WireCommand("cat " + probe + " regex:noop "))
		vic.Done.Recv("victim")
		got := ""
		for _, m := range vic.Lines() {
			f := strings.SplitN(m, "|", 6)
			if len(f) == 6 {
				got += f[5]
			}
		}
		if got != "probe line 1\nprobe line 2\n" {
			vrt.Failf("victim", "the well-behaved session of another user did not receive its file after the input: got %q", got)
		}
		att.H.Shutdown()
	})
	if res.Fail != nil {
		if res.Fail.Kind == "horizon" && res.Trunc != "" {
			return "", true
		}
		return res.Fail.Error(), false
	}
	return "", res.Trunc != ""
}

// c10Big writes a file that takes a session longer to deliver than the command stream takes to arrive.
// c10Contents writes the data files of the content dimension.
func c10Contents() {
	WriteScratch("c10/ragged.csv", "item,qty,comment\napple,7,fresh\npear,2\n\nplum,1,x,extra,fields\n,,\nkiwi\n")
	WriteScratch("c10/kv.log", "item=apple|qty=7\nitem=pear|qty\n=|==|qty=x\n|||\nitem=plum|qty=1|item=again\n")
	WriteScratch("c10/mapreduce.log", "INFO|20211002-071209|1|f.go:1|8|10|0|0.1|1h|MAPREDUCE:TABLE|item=apple|qty=7\nINFO|20211002-071209|1|f.go:1|8|10|0|0.1|1h|MAPREDUCE:TABLE\nINFO|2021|MAPREDUCE:TABLE|item=pear\nMAPREDUCE:TABLE|qty=2\nINFO|20211002-071209|1|f.go:1|8|10|0|0.1|1h|MAPREDUCE:|=\n"+strings.Repeat("INFO|", 40)+"MAPREDUCE:TABLE|item=plum|qty=1\n")
	WriteScratch("c10/binary.log", "\x00\xff\xfe,|=\n\xac\xac|\x1b[31m=,\n")
	WriteScratch("c10/empty.log", "")
}

func c10Big() {
	c10Contents()
	var sb strings.Builder
	for i := 0; i < 1500; i++ {
		fmt.Fprintf(&sb, "big line %d\n", i)
	}
	WriteScratch("c10/big.log", sb.String())
}

// c10CloseHandshake: several commands that finish at once leave several goroutines waiting for the client's
// acknowledgement of the close hand-shake; one acknowledgement wakes them all while the transport shuts the handler
// down as well - explored under ALL schedules within two deviations (a crash condition that is schedule-, not
// input-determined).
func c10CloseHandshake(c *Ctx, probe string) {
	for _, cmds := range [][]string{{"cat", "cat"}, {"cat", "grep", "tail"}, {"cat " + probe + " regex:noop ", "cat"}, {"map select count($line)", "cat"}} {
		cmds := cmds
		sc := &explore.Scenario{Name: "c10-close-handshake", Params: fmt.Sprintf("%q", cmds), Agg: "c10-close-handshake", MaxSteps: 300000, Horizon: 10 * time.Minute}
		sc.Run = func(cfg vrt.Config) (string, string, vrt.Result) {
			res := vrt.Run(cfg, func() {
				args := DefaultArgs()
				args.Logger = "none"
				args.LogLevel = "error"
				StartEnv(source.Server, &args, nil)
				cat := vrt.Make[struct{}]("catLimiter", 2)
				tail := vrt.Make[struct{}]("tailLimiter", 2)
				att := NewServerSession("client", "verifuser", cat, tail)
				vrt.Go("pump", func() { att.Pump(32 * 1024) })
				for _, cmd := range cmds {
					att.H.Write(WireCommand(cmd))
				}
				vrt.Sleep("session", 12*time.Second)
				att.H.Shutdown()
			})
			if res.Fail != nil {
				return "fail:" + res.Fail.Kind, res.Fail.Error(), res
			}
			return "ok", "", res
		}
		sc.Filter = func(pt *vrt.Point, alt int) bool {
			if pt.Alts[alt].Kind != vrt.AltRun {
				return true
			}
			switch pt.Infos[alt].Kind {
			case "wgadd", "wgwait":
				return false
			}
			return true
		}
		c.Explore(sc, 2, func(msg string, v *explore.Violation) string {
			return c10Sig(c10Case{Kind: "command", Payload: strings.Join(cmds, ";")}, msg)
		})
	}
}

func c10Sig(cs c10Case, msg string) string {
	p := cs.Payload
	w := strings.SplitN(p, " ", 2)[0]
	w = strings.SplitN(w, ":", 2)[0]
	switch {
	case strings.Contains(msg, "makechan"):
		return "client-controlled-huge-allocation"
	case strings.HasPrefix(msg, "panic") && strings.Contains(msg, "readcommand.go") && strings.Contains(msg, "slice bounds"):
		return "panic-read-command-too-few-arguments"
	case strings.HasPrefix(msg, "panic") && strings.Contains(msg, "tokensConsume"):
		return "panic-query-lone-backquote"
	case strings.HasPrefix(msg, "panic") && (strings.Contains(msg, "NewAggregate") || strings.Contains(msg, "mapcommand.go")) && strings.TrimSpace(strings.TrimPrefix(p, "map")) == "":
		return "panic-map-empty-query"
	case strings.HasPrefix(msg, "panic"):
		// one signature per panic site
		for _, l := range strings.Split(msg, "\n") {
			l = strings.TrimSpace(l)
			if strings.HasPrefix(l, "/") && strings.Contains(l, ".go:") && !strings.Contains(l, "/verif/engine/") {
				f := l[strings.LastIndex(l, "/")+1:]
				if i := strings.Index(f, " "); i > 0 {
					f = f[:i]
				}
				return "panic-at-" + f
			}
		}
		return "panic-" + cs.Kind + "-" + w
	case strings.HasPrefix(msg, "deadlock"):
		return "deadlock-" + w
	case strings.HasPrefix(msg, "segmented"):
		return "command-split-across-writes-not-executed"
	case strings.HasPrefix(msg, "victim"):
		return "other-session-starved-" + w
	}
	return "other-" + w
}

func c10Seq(alpha []string, maxLen int, sep string, f func(string)) {
	var rec func(cur []string)
	rec = func(cur []string) {
		f(strings.Join(cur, sep))
		if len(cur) == maxLen {
			return
		}
		for _, a := range alpha {
			rec(append(cur, a))
		}
	}
	rec(nil)
}

func c10Cases(thorough bool, emit func(c10Case)) {
	probe := Scratch() + "/c10/probe.log"
	words := []string{"cat", "grep", "tail", "map", ".ack", "health", "timeout", "", "bogus"}
	opts := []string{"", ":", ":plain=true", ":max=x", ":before=1:after", ":a=base64%!!", ":quiet=true:serverless=true", ":max=1:before=2:after=2",
		":before=9999999999", ":before=-1:after=-5:max=-2", ":after=99999999999999999999", ":before=4294967296:max=1"}
	dir := Scratch() + "/c10"
	toks := []string{probe, "/nonexistent/x", "", "*", "regex:default x", "regex:invert [", "regex", "regex:bogus,, y", "close", "connection", "regex:noop ",
		dir + "//*.log", dir + "/./p*.log", dir + "/../c10/*.log", dir + "/*/../*.log", "//"}
	n := 2
	if thorough {
		n = 3
	}
	for _, w := range words {
		for _, o := range opts {
			c10Seq(toks, n, " ", func(rest string) {
				p := w + o
				if rest != "" {
					p += " " + rest
				}
				emit(c10Case{Kind: "command", Payload: p})
			})
		}
	}
	// the full product of signs and sizes over the three context options, on commands that do read a file: a value
	// that is harmless alone can reach an allocation or an index once another option switches the context path on
	{
		vals := []string{"-1", "0", "1", "-9223372036854775808", "100000"}
		for _, w := range []string{"cat", "grep"} {
			for _, b := range vals {
				for _, a := range vals {
					for _, m := range vals {
						for _, re := range []string{"regex:noop ", "regex:default line"} {
							emit(c10Case{Kind: "command", Payload: w + ":before=" + b + ":after=" + a + ":max=" + m + " " + probe + " " + re})
						}
					}
				}
			}
		}
	}
	// queries
	qtoks := []string{"select", "from", "where", "group", "by", "order", "rorder", "set", "interval", "limit", "outfile", "append", "logformat",
		"`", "\"", "`a`", "count(", ")", "count(x)", "==", "eq", "0", "-1", "x", "$a", "=", "csv", "generickv"}
	qn := 3
	if thorough {
		qn = 4
	}
	c10Seq(qtoks, qn, " ", func(q string) {
		emit(c10Case{Kind: "command", Payload: "map " + q})
	})
	// every slot of a well-formed query filled with words that are not ASCII: invalid UTF-8 bytes, letters whose lower /
	// upper case has another byte length (U+023A 2->3 bytes, U+0130 2->3, U+212A KELVIN SIGN 3->1), a wide character, a
	// combining sequence, a NUL - alone, doubled, and as the name in front of a parenthesis
	{
		odd := []string{"\xff", "\xff\xff", "\xc3", "\xe2\x82", "Ⱥ", "ȺȺȺ", "İ", "K", "日本", "e\u0301", "\x00", "ǅ", "ﬁ"}
		tmpl := []string{"select %s", "select %s(x)", "select %s()", "select count(%s)", "select %s(%s)", "select x from %s", "select x where %s > 1", "select x where x %s 1", "select x where x > %s",
			"select x where x eq \"%s\"", "select x set $%s = x", "select x set $a = %s(x)", "select x set $a = %s", "select x group by %s", "select x order by %s", "select %s order by %s", "select x interval %s",
			"select x limit %s", "select x outfile %s", "select x logformat %s", "%s x", "select x %s y", "select `%s`"}
		for _, t := range tmpl {
			for _, o := range odd {
				emit(c10Case{Kind: "command", Payload: "map " + strings.ReplaceAll(t, "%s", o)})
			}
		}
	}
	// a running map command followed by reads
	for _, q := range []string{"select count($line) group by $hostname", "select count($line) interval 0", "select x limit 0 logformat csv",
		"select sum(x) where x > 1 set $y = maskdigits(x) logformat generickv outfile append o.csv"} {
		for _, f := range []string{probe, "", "*", "/nonexistent"} {
			emit(c10Case{Kind: "raw", Payload: string(WireCommand("map "+q)) + string(WireCommand("cat "+f+" regex:noop "))})
		}
	}
	// every ordered pair and triple of well-formed commands on ONE session (a later command arrives while the
	// earlier ones are still running: the big file takes longer than the command stream)
	{
		big := Scratch() + "/c10/big.log"
		alpha := []string{"cat " + big + " regex:noop ", "cat " + probe + " regex:noop ", "tail " + probe + " regex:noop ", "grep " + big + " regex:default line 1",
			"map select count($line) group by $hostname", "map select count($line),$hostname group by $hostname interval 1 limit 2"}
		c10Seq(alpha, 3, "\x00", func(seq string) {
			if !strings.Contains(seq, "\x00") {
				return
			}
			raw := ""
			for _, cmd := range strings.Split(seq, "\x00") {
				raw += string(WireCommand(cmd))
			}
			emit(c10Case{Kind: "raw", Payload: raw})
			emit(c10Case{Kind: "raw", Payload: raw, PauseMs: 2})
		})
	}
	// the CONTENT of the files a mapreduce query is pointed at, for every log format: ragged CSV rows, blank lines,
	// malformed key-value tokens, truncated or over-long default-format lines, binary bytes
	{
		dir := Scratch() + "/c10/"
		for _, lf := range []string{"", "logformat default", "logformat generic", "logformat generickv", "logformat csv", "logformat bogus"} {
			for _, f := range []string{"ragged.csv", "kv.log", "mapreduce.log", "binary.log", "empty.log"} {
				for _, q := range []string{"select count($line),item group by item", "select sum(qty),max(qty),min(qty),avg(qty),last(item),len(item) group by item order by sum(qty) limit 3",
					"select $hostname,count($line) from TABLE where qty > 1 group by $hostname", "select item set $x = maskdigits(item) group by $x"} {
					emit(c10Case{Kind: "raw", Payload: string(WireCommand("map "+q+" "+lf)) + string(WireCommand("cat "+dir+f+" regex:noop "))})
				}
			}
		}
	}
	// envelopes
	b64 := base64.StdEncoding.EncodeToString([]byte("cat " + probe + " regex:noop "))
	etoks := []string{"protocol", "4.1", "3", "9", "base64", "!!!", b64, ""}
	en := 4
	c10Seq(etoks, en, " ", func(e string) {
		emit(c10Case{Kind: "raw", Payload: e + ";"})
		if len(e) < 24 {
			for _, lvl := range []string{"fatal", "none", "info", "debug"} {
				emit(c10Case{Kind: "raw", Payload: e + ";", LogLevel: lvl})
			}
		}
	})
	for _, lvl := range []string{"fatal", "none", "debug"} {
		for _, w := range []string{"hello", "cat", "cat " + probe + " regex:noop ", "bogus x", "map", "tail"} {
			emit(c10Case{Kind: "command", Payload: w, LogLevel: lvl})
			emit(c10Case{Kind: "health", Payload: w, LogLevel: lvl})
		}
	}
	for _, raw := range []string{";", ";;;", " ;", "protocol 4.1 base64 " + b64, "\x00\xff;", strings.Repeat("A", 70000) + ";"} {
		emit(c10Case{Kind: "raw", Payload: raw})
	}
	// split across Write calls at every byte position
	for _, p := range []string{"cat " + probe + " regex:noop ", "map select count($line)", "tail"} {
		w := WireCommand(p)
		for i := 1; i < len(w); i++ {
			emit(c10Case{Kind: "command", Payload: p, Split: i})
		}
	}
	// health sessions
	for _, w := range []string{"health", ".ack", ".ack close connection", "cat " + probe, "", "map select x", "tail", "health x y"} {
		emit(c10Case{Kind: "health", Payload: w})
	}
}

func init() {
	Register(&Check{
		ID:    "C10",
		Level: "exploration",
		Rule: "client inputs enumerated exhaustively from token alphabets: the product {-1,0,1,MinInt64,100000}^3 of before/after/max x {cat, grep} x 2 regexes on a readable file; 9 command words x 12 option suffixes (incl. huge and negative context values) x all sequences of <=2 (quick) / <=3 (thorough) of 16 argument tokens (incl. globs in unclean path form); " +
			"'map' + all sequences of <=3 / <=4 of 28 query tokens; 23 well-formed query shapes with every slot filled by each of 13 non-ASCII words (invalid UTF-8 bytes, letters whose case mapping changes the byte length, wide and combining characters, NUL); map followed by a read command; 6 log formats x 4 queries x 5 data files with ragged CSV rows, blank lines, malformed key-value tokens, truncated default-format lines and binary bytes; every ordered pair and triple over 6 well-formed commands (cat of a 1500-line file, cat, tail, grep, two map queries) on one session, back to back and 2 ms apart with 1 ms per read(2) (so that later commands arrive while earlier ones are at work); all <=4-token sequences of 8 protocol-envelope tokens (the short ones also at server log levels fatal/none/info/debug); 3 commands split across two Write " +
			"calls at every byte; 8 inputs to a health session; plus, under all schedules within two deviations, 4 sessions whose commands finish together so that several goroutines complete the close hand-shake at once.  Each is fed to a real ServerHandler/HealthHandler under the controlled scheduler (panic in ANY goroutine is caught), " +
			"then a second user's session on the same limiters must still deliver its file.  non-trivial = distinct input strings",
		Assumptions: []string{
			"canonical schedule per input (the crash conditions are input-determined); 12 virtual seconds per input; executions that exceed the step cap (busy loops such as 'interval 0') are counted as truncated, not as crashes",
		},
		Run: func(c *Ctx) {
			probe := WriteScratch("c10/probe.log", "probe line 1\nprobe line 2\n")
			c10Big()
			c10CloseHandshake(c, probe)
			trunc := 0
			c10Cases(c.Thorough(), func(cs c10Case) {
				if !c.Mine() || c.Expired() {
					return
				}
				c.Count(cs.Kind + "|" + cs.Payload + "|" + fmt.Sprint(cs.Split, cs.PauseMs) + cs.LogLevel)
				v, tr := c10Run(cs, probe)
				if tr {
					trunc++
				}
				if v != "" {
					c.Violation(c10Sig(cs, v), fmt.Sprintf("input %q (%s): %s", cs.Payload, cs.Kind, v), cs)
				}
				if cs.Kind == "command" && strings.HasPrefix(cs.Payload, "map select from `") {
					c.Sample(cs)
				}
			})
			c.Res.Extra["truncated_executions"] = float64(trunc)
		},
		Replay: func(c *Ctx, rec *ViolationRec) string {
			var cs c10Case
			if err := jsonUnmarshal(rec.Input, &cs); err != nil {
				return "cannot decode input"
			}
			probe := WriteScratch("c10/probe.log", "probe line 1\nprobe line 2\n")
			c10Big()
			v, _ := c10Run(cs, probe)
			return v
		},
	})
}
