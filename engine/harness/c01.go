package harness

import (
	"bytes"
	"compress/gzip"
	"fmt"
	"os"
	"strings"
	"time"

	"github.com/DataDog/zstd"
	"github.com/mimecast/dtail/internal/config"
	"github.com/mimecast/dtail/internal/source"
	"github.com/mimecast/dtail/verif/explore"
	"github.com/mimecast/dtail/verif/vos"
	"github.com/mimecast/dtail/verif/vrt"
)

// C01: dcat reproduces file content byte for byte.

type c01Case struct {
	Content  string `json:"content"`
	Desc     string `json:"desc,omitempty"` // for long contents: a description instead of the bytes
	Encoding string `json:"encoding"`       // "" gz gzip zst
	M        int    `json:"max_line_length"`
	LogLevel string `json:"log_level"`
	// SlowReadMs makes every read(2) of the file take that long (virtual time):
	// the read then spans dtail's periodic (3 s) truncation check.
	SlowReadMs int `json:"slow_read_ms,omitempty"`
	// StallMs: the consumer of dcat's stdout (a pipe) reads nothing for that long after the first
	// write; meanwhile the transport is blocked between two reads from the server handler.
	StallMs int `json:"consumer_stall_ms,omitempty"`
	// TransportMs: the transport takes that long (virtual time) before every read from the server
	// handler, as an SSH channel with a full window does
	TransportMs int `json:"transport_ms_per_read,omitempty"`
}

// c01Split is the statement's reference: a newline is inserted after each run
// of M consecutive non-newline bytes.
func c01Split(content []byte, m int) []byte {
	var out bytes.Buffer
	run := 0
	for _, b := range content {
		out.WriteByte(b)
		if b == '\n' {
			run = 0
			continue
		}
		run++
		if run == m {
			out.WriteByte('\n')
			run = 0
		}
	}
	return out.Bytes()
}

func c01WriteFile(name string, content []byte, enc string) string {
	var data []byte
	switch enc {
	case "":
		data = content
	case "gz", "gzip":
		var b bytes.Buffer
		w := gzip.NewWriter(&b)
		w.Write(content)
		w.Close()
		data = b.Bytes()
	case "zst":
		d, err := zstd.Compress(nil, content)
		if err != nil {
			panic(err)
		}
		data = d
	default:
		// format features: "gz:members=k" (k concatenated gzip members, boundaries anywhere, also mid-line; RFC 1952
		// 2.2), "gz:header" (file name, comment and extra field in the header), "gz:stored" (no compression),
		// "zst:frames=k" (k concatenated zstd frames)
		var b bytes.Buffer
		parts := func(k int) [][]byte {
			var out [][]byte
			for i := 0; i < k; i++ {
				out = append(out, content[len(content)*i/k:len(content)*(i+1)/k])
			}
			return out
		}
		switch enc {
		case "gz:members=2", "gz:members=3":
			for _, part := range parts(int(enc[len(enc)-1] - '0')) {
				w := gzip.NewWriter(&b)
				w.Write(part)
				w.Close()
			}
		case "gz:empty-first-member":
			w := gzip.NewWriter(&b)
			w.Close()
			w = gzip.NewWriter(&b)
			w.Write(content)
			w.Close()
		case "gz:header":
			w := gzip.NewWriter(&b)
			w.Name, w.Comment, w.Extra = "original name.log", "a comment", []byte{1, 2, 3, 4}
			w.Write(content)
			w.Close()
		case "gz:stored":
			w, _ := gzip.NewWriterLevel(&b, gzip.NoCompression)
			w.Write(content)
			w.Close()
		case "zst:frames=2", "zst:frames=3":
			for _, part := range parts(int(enc[len(enc)-1] - '0')) {
				d, err := zstd.Compress(nil, part)
				if err != nil {
					panic(err)
				}
				b.Write(d)
			}
		default:
			panic("unknown encoding " + enc)
		}
		data = b.Bytes()
	}
	p := Scratch() + "/c01/" + name
	os.MkdirAll(Scratch()+"/c01", 0o755)
	if err := os.WriteFile(p, data, 0o644); err != nil {
		panic(err)
	}
	return p
}

var c01Seq int

func c01Run(c *Ctx, cs c01Case, content []byte) {
	c01Seq++
	ext := ".txt"
	if cs.Encoding != "" {
		ext = ".txt." + strings.SplitN(cs.Encoding, ":", 2)[0]
	}
	path := c01WriteFile(fmt.Sprintf("f%d-%d%s", c.Shard, c01Seq, ext), content, cs.Encoding)
	defer os.Remove(path)
	want := c01Split(content, cs.M)
	var got ClientResult
	res := vrt.Run(vrt.Config{MaxSteps: 50000000, Horizon: 30 * time.Minute}, func() {
		args := DefaultArgs()
		args.Plain = true
		args.What = path
		args.LogLevel = cs.LogLevel
		o := ClientOpts{Kind: "cat", Args: args}
		if cs.StallMs > 0 {
			o.Consumer = func(pipe *vrt.Chan[string], sink *vrt.StdoutSink) {
				n := 0
				for {
					s, ok := pipe.Recv2("consumer")
					if !ok {
						return
					}
					sink.Buf.WriteString(s)
					n++
					if n == 1 {
						vrt.Sleep("consumer-stall", time.Duration(cs.StallMs)*time.Millisecond)
					}
				}
			}
		}
		o.Mutate = func() {
			config.Server.MaxLineLength = cs.M
			if cs.TransportMs > 0 {
				vrt.OnHook[c01ReadHook] = func(interface{}) {
					vrt.Sleep("transport", time.Duration(cs.TransportMs)*time.Millisecond)
				}
			}
			if cs.SlowReadMs > 0 {
				vos.S.ReadDelay = time.Duration(cs.SlowReadMs) * time.Millisecond
				vos.S.ReadDelayPrefix = Scratch() + "/c01/"
			}
		}
		got = RunClientBody(o)
	})
	delete(vrt.OnHook, c01ReadHook)
	key := ""
	if len(content) > 0 {
		key = fmt.Sprintf("%s|%s|%d|%s|%s|%d|%d", cs.Content, cs.Desc, cs.M, cs.Encoding, cs.LogLevel, cs.SlowReadMs, cs.StallMs+1000000*cs.TransportMs)
	}
	c.Count(key)
	show := func(b []byte) string {
		if len(b) > 120 {
			return fmt.Sprintf("%q...(%d bytes)", b[:120], len(b))
		}
		return fmt.Sprintf("%q", b)
	}
	if res.Fail != nil {
		c.Violation(c01Sig(content, cs, "fail:"+res.Fail.Kind), fmt.Sprintf("content %s (%s) M=%d enc=%q: %v", show(content), cs.Desc, cs.M, cs.Encoding, res.Fail), cs)
		return
	}
	if got.Err != "" || got.Status != 0 || got.Stdout != string(want) {
		c.Violation(c01Sig(content, cs, "differs"), fmt.Sprintf("file content %s (%s), MaxLineLength %d, encoding %q, logLevel %s: dcat --plain printed %s (status %d %s), want %s",
			show(content), cs.Desc, cs.M, cs.Encoding, cs.LogLevel, show([]byte(got.Stdout)), got.Status, got.Err, show(want)), cs)
	}
}

// c01Sig attributes a violation to a finding class by the feature of the
// content that explains it.
func c01Sig(content []byte, cs c01Case, kind string) string {
	if bytes.IndexByte(content, 0xAC) >= 0 {
		return "content-contains-byte-0xAC"
	}
	for _, l := range bytes.SplitAfter(c01Split(content, cs.M), []byte("\n")) {
		if len(l) > 0 && l[0] == '.' {
			return "line-starts-with-dot"
		}
	}
	maxLine := 0
	for _, l := range bytes.Split(c01Split(content, cs.M), []byte("\n")) {
		if len(l) > maxLine {
			maxLine = len(l)
		}
	}
	if maxLine+2 > 32*1024 {
		return "line-longer-than-transport-buffer"
	}
	if strings.HasPrefix(cs.Encoding, "zst:frames") {
		return "zstd-file-of-several-frames-cut-after-the-first-frame"
	}
	if kind != "differs" {
		return kind
	}
	return "output-differs"
}

func c01Cases(thorough bool, emit func(cs c01Case, content []byte)) {
	toks := []string{"\x00", "a", "\n", ".", "\xac", "\xc2\xac", "\xe2\x82\xac", "\xff", "|", " ", ";", "REMOTE|", "xxxxxxx", "xxxxxxxx", "xxxxxxxxx", "\r"}
	n := 3
	if thorough {
		n = 4
	}
	c10Seq(toks, n, "", func(s string) {
		emit(c01Case{Content: s, M: 8, LogLevel: "error"}, []byte(s))
	})
	// encodings and the default log level on dot/0xAC-free short-line contents
	safe := []string{"a", "\n", "b c", "\x00", "\xff", "|", "xxxxxxx", "é", "\t"}
	c10Seq(safe, 3, "", func(s string) {
		for _, enc := range []string{"gz", "gzip", "zst"} {
			emit(c01Case{Content: s, M: 8, Encoding: enc, LogLevel: "error"}, []byte(s))
		}
		emit(c01Case{Content: s, M: 1024, LogLevel: "info"}, []byte(s))
	})
	// file signatures at the very start of the content (byte order marks, the magic numbers of the
	// compressed formats inside a file whose name says "plain", script and archive headers): dcat
	// has to hand them on like any other bytes, in a plain file as well as inside a compressed one
	for _, magic := range []string{"\xef\xbb\xbf", "\xff\xfe", "\xfe\xff", "\xef\xbb", "\x1f\x8b", "\x1f\x8b\x08\x00", "\x28\xb5\x2f\xfd", "#!", "PK\x03\x04", "\x7fELF", "\xef\xbb\xbf\xef\xbb\xbf"} {
		for _, rest := range []string{"", "\n", "time,host\n1,a\n", "x\n" + magic + "y\n" + magic} {
			for _, enc := range []string{"", "gz", "zst"} {
				emit(c01Case{Desc: fmt.Sprintf("content starts with the signature %q, then %q", magic, rest), M: 1024, Encoding: enc, LogLevel: "error"}, []byte(magic+rest))
			}
		}
	}
	// features of the compressed formats
	for _, content := range []string{"a\nbb\nccc\n", "first line\nsecond line without newline", strings.Repeat("0123456789 a longer file\n", 700), "x", ""} {
		for _, enc := range []string{"gz:members=2", "gz:members=3", "gz:empty-first-member", "gz:header", "gz:stored", "zst:frames=2", "zst:frames=3"} {
			if content == "" && strings.HasPrefix(enc, "zst:") {
				continue // a zstd file made of empty frames only: the zstd library itself reports an error (not dtail's)
			}
			emit(c01Case{Content: content, Desc: enc, M: 1024, Encoding: enc, LogLevel: "error"}, []byte(content))
		}
	}
	// slow reads: the read spans the reader's periodic truncation check (3 s) and poll timers
	for _, content := range []string{"a\nb", "a\nb\n", "xxxxxxxxxxxx\nlast", "", strings.Repeat("yyyyyyy\n", 300) + "last", strings.Repeat("yyyyyyy\n", 300)} {
		for _, enc := range []string{"", "gz", "gzip", "zst"} {
			for _, ms := range []int{100, 1600, 3500} {
				emit(c01Case{Content: content, M: 8, Encoding: enc, LogLevel: "error", SlowReadMs: ms}, []byte(content))
			}
		}
	}
	// several lines longer than the transport buffer in one session
	for _, m := range []int{100000} {
		for _, nl := range []bool{true, false} {
			var b bytes.Buffer
			b.WriteString("short1\n" + strings.Repeat("A", 40000) + "\n" + strings.Repeat("B", 50000) + "\nshort2\n" + strings.Repeat("C", 33000))
			if nl {
				b.WriteString("\n")
			}
			emit(c01Case{Desc: fmt.Sprintf("lines of 40000, 50000 and 33000 bytes among short lines, final newline %v", nl), M: m, LogLevel: "error"}, b.Bytes())
			// the same with a slow disk and a consumer that stalls: the reader is still working (and re-using
			// pooled buffers) while the transport sits between two reads of one over-long message
			for _, rd := range []int{0, 5} {
				for _, st := range []int{200, 3000} {
					emit(c01Case{Desc: fmt.Sprintf("lines of 40000, 50000 and 33000 bytes among short lines, final newline %v", nl), M: m, LogLevel: "error", SlowReadMs: rd, StallMs: st}, b.Bytes())
				}
				for _, tr := range []int{1, 100} {
					emit(c01Case{Desc: fmt.Sprintf("lines of 40000, 50000 and 33000 bytes among short lines, final newline %v", nl), M: m, LogLevel: "error", SlowReadMs: rd, TransportMs: tr}, b.Bytes())
				}
			}
		}
	}
	// many consecutive over-long lines, disk and transport speeds in every combination: the reader is at
	// work on later lines (re-using pooled buffers) while earlier ones are between two transport reads
	{
		var b bytes.Buffer
		for i := 0; i < 8; i++ {
			b.WriteString(strings.Repeat(string(rune('A'+i)), 40000+3000*(i%4)) + "\n")
		}
		for _, rd := range []int{1, 5, 20} {
			for _, tr := range []int{5, 20, 100} {
				emit(c01Case{Desc: "8 consecutive lines of 40000..49000 bytes", M: 100000, LogLevel: "error", SlowReadMs: rd, TransportMs: tr}, b.Bytes())
			}
		}
	}
	// long-line family
	ms := []int{8, 1024, 100000}
	if thorough {
		ms = append(ms, 1024*1024)
	}
	for _, m := range ms {
		ls := []int{m - 1, m, m + 1, 2 * m, 2*m + 1}
		if m >= 1024 {
			ls = append(ls, 32767, 32768, 32769, 40000, 65537)
		}
		if m == 1024*1024 {
			ls = []int{32760, 32767, 32768, 32769, 40000, 65537, m - 1, m, m + 1}
		}
		if m == 100000 {
			ls = []int{32760, 32767, 32768, 32769, 40000, 65537, 99999}
		}
		for _, l := range ls {
			for pos := 0; pos < 3; pos++ {
				for _, nl := range []bool{true, false} {
					for _, enc := range []string{"", "gz", "zst"} {
						if enc != "" && pos != 1 {
							continue
						}
						var b bytes.Buffer
						long := strings.Repeat("L", l)
						switch pos {
						case 0:
							b.WriteString(long + "\nshort1\nshort2")
						case 1:
							b.WriteString("short1\n" + long + "\nshort2")
						case 2:
							b.WriteString("short1\nshort2\n" + long)
						}
						if nl {
							b.WriteString("\n")
						}
						emit(c01Case{Desc: fmt.Sprintf("one line of %d bytes at position %d among short lines, final newline %v", l, pos, nl), M: m, Encoding: enc, LogLevel: "error"}, b.Bytes())
					}
				}
			}
		}
	}
}

// c01Schedules: a file with several lines longer than the transport buffer, read from a slow disk,
// under all schedules within one deviation (incl. a transport goroutine that is delayed between two
// reads of one over-long message while the file reader keeps working and re-using pooled buffers).
// c01Histories: a long-lived server process: earlier sessions whose read ends before the end of the file (grep
// with a maximum, a session that is cut, a follow) must leave nothing behind that shows up in a later dcat --plain
// of another file.
func c01Histories(c *Ctx) {
	var a strings.Builder
	for i := 0; i < 400; i++ {
		fmt.Fprintf(&a, "AAAA content of file a which nobody asked for, line %d\n", i)
	}
	b := "b line 0\nb line 1\nlast b line without newline"
	pa := c01WriteFile(fmt.Sprintf("hist-a-%d.log", c.Shard), []byte(a.String()), "")
	pb := c01WriteFile(fmt.Sprintf("hist-b-%d.log", c.Shard), []byte(b), "")
	for _, first := range []string{"grep:max=1 " + pa + " regex:default line 7", "grep:max=2:after=1 " + pa + " regex:default AAAA", "cat " + pa + " regex:noop ", "tail " + pa + " regex:noop ", "cat:plain=true " + pa + " regex:noop "} {
		for _, cut := range []bool{false, true} {
			res := vrt.Run(vrt.Config{MaxSteps: 5000000, Horizon: 10 * time.Minute}, func() {
				args := DefaultArgs()
				args.Logger = "none"
				args.LogLevel = "error"
				StartEnv(source.Server, &args, func() { config.Server.MaxLineLength = 1024 })
				cat := vrt.Make[struct{}]("catLimiter", 2)
				tail := vrt.Make[struct{}]("tailLimiter", 2)
				s1 := NewServerSession("earlier", "verifuser", cat, tail)
				if !cut {
					vrt.Go("pump", func() { s1.Pump(32 * 1024) })
				}
				s1.H.Write(WireCommand(first))
				vrt.Sleep("earlier-session", 3*time.Second)
				s1.H.Shutdown() // a session that is cut never read its output
				vrt.Sleep("gone", 8*time.Second)
				s2 := NewServerSession("later", "verifuser", cat, tail)
				vrt.Go("pump", func() { s2.Pump(32 * 1024) })
				s2.H.Write(WireCommand("cat:plain=true " + pb + " regex:noop "))
				if !s2.Wait(2 * time.Minute) {
					vrt.Failf("later", "the later session does not end")
				}
				got := ""
				for _, m := range s2.Messages {
					if !strings.HasPrefix(m, ".") {
						got += m
					}
				}
				if got != b {
					vrt.Failf("history", "after an earlier session (%q, output read: %v) a plain cat of another file returned %q, the file holds %q", strings.SplitN(first, " ", 2)[0], !cut, got, b)
				}
			})
			c.Count(fmt.Sprintf("history|%s|%v", first, cut))
			if res.Fail != nil {
				c.Violation("earlier-session-leaks-into-a-later-dcat", res.Fail.Error(), map[string]interface{}{"earlier_command": first, "earlier_session_cut": cut})
			}
		}
	}
}

const c01ReadHook = "internal/server/handlers.baseHandler.Read"

func c01Schedules(c *Ctx) {
	content := "short1\n" + strings.Repeat("A", 40000) + "\n" + strings.Repeat("B", 50000) + "\n" + strings.Repeat("C", 45000) + "\nshort2\n"
	path := c01WriteFile(fmt.Sprintf("sched-%d.txt", c.Shard), []byte(content), "")
	sc := &explore.Scenario{Name: "c01-schedules", Params: "3 lines > 32 KiB, 5 ms per read(2)", MaxSteps: 2000000, Horizon: 10 * time.Minute, Demotion: true, LongDemotion: true}
	sc.Run = func(cfg vrt.Config) (string, string, vrt.Result) {
		var got ClientResult
		res := vrt.Run(cfg, func() {
			args := DefaultArgs()
			args.Plain = true
			args.What = path
			args.LogLevel = "error"
			got = RunClientBody(ClientOpts{Kind: "cat", Args: args, Mutate: func() {
				config.Server.MaxLineLength = 100000
				vos.S.ReadDelay = 5 * time.Millisecond
				vos.S.ReadDelayPrefix = Scratch() + "/c01/"
			}})
		})
		if res.Fail != nil {
			return "fail:" + res.Fail.Kind, res.Fail.Error(), res
		}
		if got.Stdout != content || got.Status != 0 {
			i := 0
			for i < len(got.Stdout) && i < len(content) && got.Stdout[i] == content[i] {
				i++
			}
			return "differs", fmt.Sprintf("file with lines of 40000, 50000 and 45000 bytes read from a slow disk: dcat --plain printed %d bytes (status %d), want %d; first difference at offset %d", len(got.Stdout), got.Status, len(content), i), res
		}
		return "ok", "", res
	}
	sc.Filter = func(pt *vrt.Point, alt int) bool {
		if pt.Alts[alt].Kind != vrt.AltRun {
			return true
		}
		o := pt.Infos[alt].Obj
		return strings.Contains(o, "lines@") || strings.Contains(o, "rawLines") || strings.Contains(o, "serverMessages")
	}
	c.Explore(sc, 1, func(msg string, v *explore.Violation) string {
		if strings.HasPrefix(msg, "panic") {
			return "panic"
		}
		return "output-differs-under-some-schedule"
	})
}

func init() {
	Register(&Check{
		ID:    "C01",
		Level: "exploration",
		Rule: "contents that start with one of 11 file signatures (byte order marks, gzip/zstd magic inside a plain file, #!, PK, ELF) x 4 continuations x {plain, gz, zst}; file contents = all sequences of <=3 (quick) / <=4 (thorough) tokens over 16 byte tokens (0x00, 'a', newline, '.', the wire delimiter byte 0xAC alone and inside UTF-8 characters, 0xFF, '|', space, ';', 'REMOTE|', CR, " +
			"runs of 7/8/9 bytes around MaxLineLength 8); gzip/.gzip/zstd encodings and the default log level on a delimiter-free alphabet; format features of the compressed files (gzip files of 2-3 members with boundaries inside a line, an empty first member, header fields, stored blocks; zstd files of 2-3 frames); a long-line family (one line of M-1, M, M+1, 2M, 2M+1 and 32767..65537 bytes, " +
			"first/middle/last, with/without final newline, plain/gz/zst) for M in {8, 1024, 100000} (+ 1 MiB thorough).  Histories on one long-lived server: an earlier session whose read ends early (grep with a maximum, cut session, follow) followed by a plain cat of another file.  Each runs the real dcat main body (--plain --logLevel error --cfg none, serverless) under the controlled scheduler; " +
			"oracle: stdout == content with a newline inserted after every M consecutive non-newline bytes, exit status 0; non-trivial = non-empty content",
		Assumptions: []string{
			"serverless wiring (client handler <-> server handler through the real io.Copy loops of connectors.Serverless); the SSH transport is a byte stream and is covered by C02/C07's segmented wiring",
			"canonical schedule for the input families (C02 explores schedules); one family (three over-long lines, slow disk) is explored under all schedules within one deviation",
		},
		Run: func(c *Ctx) {
			c01Schedules(c)
			if c.Shard == 0 {
				c01Histories(c)
			}
			c01Cases(c.Thorough(), func(cs c01Case, content []byte) {
				if !c.Mine() || c.Expired() {
					return
				}
				c01Run(c, cs, content)
				if cs.Content == "a\n\xffa" {
					c.Sample(cs)
				}
			})
		},
		Replay: func(c *Ctx, rec *ViolationRec) string {
			var cs c01Case
			if err := jsonUnmarshal(rec.Input, &cs); err != nil {
				return "cannot decode input"
			}
			var content []byte
			found := false
			if cs.Desc == "" {
				content, found = []byte(cs.Content), true
			} else {
				c01Cases(true, func(x c01Case, b []byte) {
					if x == cs {
						content, found = b, true
					}
				})
			}
			if !found {
				return "case not found"
			}
			c01Run(c, cs, content)
			if len(c.Res.Violations) > 0 {
				return c.Res.Violations[0].Msg
			}
			return ""
		},
	})
}
