package probe

import (
	_ "github.com/mimecast/dtail/internal/clients"
	_ "github.com/mimecast/dtail/internal/clients/connectors"
	_ "github.com/mimecast/dtail/internal/mapr/server"
	_ "github.com/mimecast/dtail/internal/server/handlers"
	_ "github.com/mimecast/dtail/internal/io/fs"
)
