package harness

import (
	"fmt"
	"os"
	"regexp"
	"strings"
	"time"

	chandlers "github.com/mimecast/dtail/internal/clients/handlers"
	"github.com/mimecast/dtail/internal/config"
	"github.com/mimecast/dtail/internal/mapr"
	"github.com/mimecast/dtail/internal/source"
	"github.com/mimecast/dtail/verif/explore"
	"github.com/mimecast/dtail/verif/vrt"
)

// C16: no message content can crash the client; colouring never alters text.

type c16Case struct {
	Handler string `json:"handler"` // client | mapr | health
	Stream  string `json:"stream"`  // bytes the server sends
	Chunk   int    `json:"chunk"`   // write in two chunks at this offset (0 = one)
}

var sgr = regexp.MustCompile("\x1b\\[[0-9;]*m")

var maprGlobal *mapr.GlobalGroupSet
var maprQuery *mapr.Query

func c16Feed(cs c16Case, colors bool) string {
	config.Client.TermColorsEnable = colors
	vrt.Out().Buf.Reset()
	var h chandlers.Handler
	switch cs.Handler {
	case "client":
		h = chandlers.NewClientHandler("srv1")
	case "health":
		h = chandlers.NewHealthHandler("srv1")
	case "mapr", "mapr-orderby-field", "mapr-limit":
		q, err := mapr.NewQuery(map[string]string{
			"mapr":               "select count(x),sum(y) group by k",
			"mapr-orderby-field": "select k,s,count(x) group by k order by s",
			"mapr-limit":         "select k,last(s),max(y),min(y),avg(y),len(s) group by k rorder by last(s) limit 1",
		}[cs.Handler])
		if err != nil {
			panic(err)
		}
		maprGlobal = mapr.NewGlobalGroupSet()
		maprQuery = q
		h = chandlers.NewMaprHandler("srv1", q, maprGlobal)
	}
	b := []byte(cs.Stream)
	if cs.Chunk > 0 && cs.Chunk < len(b) {
		h.Write(b[:cs.Chunk])
		h.Write(b[cs.Chunk:])
	} else {
		h.Write(b)
	}
	// let spawned goroutines (ack sender) run
	vrt.Sleep("settle", 6*time.Second)
	h.Shutdown()
	if maprGlobal != nil {
		// what the client's reporter does with whatever the messages left in the result set; an error is fine, a
		// crash is not (the real client turns an error of the final report into a fatal panic only for I/O errors)
		if table, _, err := maprGlobal.Result(maprQuery, 10); err != nil {
			vrt.Failf("report", "the result report fails after these messages: %v", err)
		} else {
			vrt.Out().Buf.WriteString(table)
		}
		maprGlobal = nil
	}
	return vrt.Out().Buf.String()
}

// c16RunBatch processes cases[*idx...] inside one controlled execution; it
// stops at the first failure (panic), which it returns.
func c16RunBatch(c *Ctx, cases []c16Case, idx *int) {
	res := vrt.Run(vrt.Config{MaxSteps: 1 << 40, Horizon: 100000 * time.Hour}, func() {
		args := DefaultArgs()
		args.Logger = "stdout"
		args.LogLevel = "info"
		StartEnv(source.Client, &args, nil)
		for *idx < len(cases) {
			cs := cases[*idx]
			plain := c16Feed(cs, false)
			col := c16Feed(cs, true)
			if a, b := sgr.ReplaceAllString(col, ""), sgr.ReplaceAllString(plain, ""); a != b {
				c.Violation("colouring-alters-text", fmt.Sprintf("handler %s, server bytes %s: coloured output without escape sequences %s != uncoloured %s",
					cs.Handler, c16Show(cs.Stream), c16Show(a), c16Show(b)), c16Short(cs))
			}
			key := ""
			if plain != "" {
				key = cs.Handler + "|" + cs.Stream + fmt.Sprint(cs.Chunk)
			}
			c.Count(key)
			*idx++
			if *idx%64 == 0 {
				vrt.Forget()
			}
			if *idx%512 == 0 && c.Expired() {
				*idx = len(cases)
			}
		}
	})
	if res.Fail != nil && *idx < len(cases) {
		cs := cases[*idx]
		c.Count(cs.Handler + "|" + cs.Stream)
		c.Violation(c16Sig(cs, res.Fail.Error()), fmt.Sprintf("handler %s, server bytes %s: %s", cs.Handler, c16Show(cs.Stream), res.Fail.Error()), c16Short(cs))
		*idx++
	}
}

// c16ConfigColours: the colours come from a JSON configuration file (the repository's own example file, which
// spells colour names both as "Blue" and as "FgBlue" / "AttrDim") instead of the built-in defaults.
func c16ConfigColours(c *Ctx) {
	repo := os.Getenv("VERIF_REPO")
	if repo == "" {
		repo = "/repo"
	}
	cfgFile := repo + "/examples/dtail.json.example"
	if _, err := os.Stat(cfgFile); err != nil {
		return
	}
	recs := []string{"REMOTE|h|100|1|f|text", "REMOTE|h| 42|1|f|WARN x", "SERVER|h|ERROR|boom", "CLIENT|h|FATAL|x", "CLIENT|h|WARN|w", "AGGREGATE|h|k∥1∥count(x)≔1∥sum(y)≔2∥", "plain text\n", "REMOTE|h|100|1|f|ERROR in red?"}
	res := vrt.Run(vrt.Config{MaxSteps: 1 << 40, Horizon: 100000 * time.Hour}, func() {
		args := DefaultArgs()
		args.Logger = "stdout"
		args.LogLevel = "info"
		args.ConfigFile = cfgFile
		StartEnv(source.Client, &args, nil)
		for _, h := range []string{"client", "mapr", "mapr-orderby-field"} {
			for _, r := range recs {
				cs := c16Case{Handler: h, Stream: r + c16Delim}
				plain := c16Feed(cs, false)
				col := c16Feed(cs, true)
				c.Count("config-file-colours|" + h + "|" + r)
				if a, b := sgr.ReplaceAllString(col, ""), sgr.ReplaceAllString(plain, ""); a != b {
					c.Violation("colouring-alters-text-with-colours-from-the-configuration-file", fmt.Sprintf("colours taken from %s, handler %s, server bytes %q: coloured output without escape sequences %s != uncoloured %s",
						"examples/dtail.json.example", h, cs.Stream, c16Show(a), c16Show(b)), cs)
					return
				}
			}
		}
	})
	if res.Fail != nil {
		c.Violation(c16Sig(c16Case{}, res.Fail.Error()), "colours from the example configuration file: "+res.Fail.Error(), nil)
	}
}

// c16TearDown: hidden messages arrive while the connection is being torn down for another reason (interrupt,
// time-out, the other copy direction ending): the transport's copy goroutine is inside Write, another goroutine
// calls Shutdown, a third reads the handler's commands - all schedules within two deviations.
func c16TearDown(c *Ctx) {
	streams := []string{".syn close connection" + c16Delim, ".syn close connection" + c16Delim + ".syn close connection" + c16Delim,
		"REMOTE|h|100|1|f|x\n" + c16Delim + ".syn close connection" + c16Delim, "SERVER|h|ERROR|boom\n" + c16Delim}
	for _, kind := range []string{"client", "mapr", "health"} {
		for _, stream := range streams {
			for _, twoShutdowns := range []bool{false, true} {
				kind, stream, twoShutdowns := kind, stream, twoShutdowns
				sc := &explore.Scenario{Name: "c16-teardown", Params: fmt.Sprintf("%s %q shutdowns=%v", kind, stream, twoShutdowns), Agg: "c16-teardown:" + kind,
					MaxSteps: 200000, Horizon: 10 * time.Minute}
				sc.Run = func(cfg vrt.Config) (string, string, vrt.Result) {
					res := vrt.Run(cfg, func() {
						args := DefaultArgs()
						args.Logger = "none"
						args.LogLevel = "error"
						StartEnv(source.Client, &args, nil)
						var h chandlers.Handler
						switch kind {
						case "client":
							h = chandlers.NewClientHandler("srv1")
						case "health":
							h = chandlers.NewHealthHandler("srv1")
						case "mapr":
							q, _ := mapr.NewQuery("select count(x),sum(y) group by k")
							h = chandlers.NewMaprHandler("srv1", q, mapr.NewGlobalGroupSet())
						}
						done := vrt.Make[struct{}]("joined", 4)
						n := 3
						vrt.Go("server-bytes", func() { h.Write([]byte(stream)); done.Send("j", struct{}{}) })
						vrt.Go("tear-down", func() { h.Shutdown(); done.Send("j", struct{}{}) })
						vrt.Go("command-reader", func() {
							buf := make([]byte, 1024)
							for {
								if _, err := h.Read(buf); err != nil {
									break
								}
							}
							done.Send("j", struct{}{})
						})
						if twoShutdowns {
							n++
							vrt.Go("tear-down-2", func() { h.Shutdown(); done.Send("j", struct{}{}) })
						}
						for i := 0; i < n; i++ {
							done.Recv("join")
						}
						vrt.Sleep("settle", 6*time.Second)
					})
					if res.Fail != nil {
						return "fail:" + res.Fail.Kind, res.Fail.Error(), res
					}
					return "ok", "", res
				}
				c.Explore(sc, 2, func(msg string, v *explore.Violation) string {
					return c16Sig(c16Case{Handler: kind, Stream: stream}, msg)
				})
			}
		}
	}
}

// c16Contention: AGGREGATE messages of two servers arrive while the result reporter reads the shared result set -
// all schedules within two deviations; no crash, no deadlock, and the final result accounts for every message once.
func c16Contention(c *Ctx) {
	for _, msgsPerServer := range []int{1, 2} {
		msgsPerServer := msgsPerServer
		sc := &explore.Scenario{Name: "c16-aggregate-contention", Params: fmt.Sprintf("2 servers x %d AGGREGATE messages + reporter", msgsPerServer), Agg: "c16-aggregate-contention",
			MaxSteps: 300000, Horizon: 10 * time.Minute}
		sc.Run = func(cfg vrt.Config) (string, string, vrt.Result) {
			var viol string
			res := vrt.Run(cfg, func() {
				args := DefaultArgs()
				args.Logger = "none"
				args.LogLevel = "error"
				StartEnv(source.Client, &args, nil)
				q, err := mapr.NewQuery("select count(x),sum(y) group by k")
				if err != nil {
					panic(err)
				}
				g := mapr.NewGlobalGroupSet()
				done := vrt.Make[struct{}]("joined", 4)
				for s := 0; s < 2; s++ {
					h := chandlers.NewMaprHandler(fmt.Sprintf("srv%d", s), q, g)
					vrt.Go(fmt.Sprintf("server-bytes-%d", s), func() {
						for m := 0; m < msgsPerServer; m++ {
							h.Write([]byte("AGGREGATE|h|k∥1∥count(x)≔1∥sum(y)≔2∥" + c16Delim))
						}
						done.Send("j", struct{}{})
					})
				}
				vrt.Go("reporter", func() {
					g.Result(q, 10)
					done.Send("j", struct{}{})
				})
				for i := 0; i < 3; i++ {
					done.Recv("join")
				}
				out, n, err := g.Result(q, 10)
				want := fmt.Sprintf("%d", 2*msgsPerServer)
				rows := strings.Split(strings.TrimSpace(sgr.ReplaceAllString(out, "")), "\n")
				cells := strings.Split(rows[len(rows)-1], "|")
				okRow := len(cells) == 2 && strings.TrimSpace(cells[0]) == want && strings.TrimSpace(cells[1]) == fmt.Sprintf("%f", float64(4*msgsPerServer))
				if err != nil || n != 1 || !okRow {
					viol = fmt.Sprintf("after %d AGGREGATE messages (count 1, sum 2 each, same group) the result set holds %d rows: %q (err %v); want one row with count %s", 2*msgsPerServer, n, out, err, want)
				}
			})
			if res.Fail != nil {
				return "fail:" + res.Fail.Kind, res.Fail.Error(), res
			}
			if viol != "" {
				return "wrong", viol, res
			}
			return "ok", "", res
		}
		c.Explore(sc, 2, func(msg string, v *explore.Violation) string {
			if strings.HasPrefix(msg, "after ") {
				return "aggregate-messages-miscounted-under-contention"
			}
			return c16Sig(c16Case{Handler: "mapr", Stream: "AGGREGATE"}, msg)
		})
	}
}

func c16Sig(cs c16Case, msg string) string {
	switch {
	case strings.Contains(msg, "brush.paint"):
		return "panic-colouring-record-with-too-few-fields"
	case strings.Contains(msg, "MaprHandler).Write") && strings.Contains(msg, "index out of range [0]"):
		return "panic-mapr-handler-empty-message"
	case strings.HasPrefix(msg, "panic"):
		for _, l := range strings.Split(msg, "\n") {
			l = strings.TrimSpace(l)
			if strings.HasPrefix(l, "/") && strings.Contains(l, ".go:") && !strings.Contains(l, "/verif/engine/") {
				f := l[strings.LastIndex(l, "/")+1:]
				if i := strings.Index(f, " "); i > 0 {
					f = f[:i]
				}
				return "panic-at-" + f
			}
		}
		return "panic"
	}
	return strings.SplitN(msg, ":", 2)[0]
}

const c16Delim = "\xac"

// c16Show quotes a byte stream, abbreviating the long ones.
func c16Show(s string) string {
	if len(s) > 400 {
		return fmt.Sprintf("%q...(%d bytes)...%q", s[:120], len(s), s[len(s)-80:])
	}
	return fmt.Sprintf("%q", s)
}

func c16Short(cs c16Case) c16Case {
	if len(cs.Stream) > 400 {
		cs.Stream = c16Show(cs.Stream)
	}
	return cs
}

func c16Cases(thorough bool) (out []c16Case) {
	toks := []string{"REMOTE", "SERVER", "CLIENT", "AGGREGATE", "|", ".", ".syn close connection", "x", "100", " 42", "WARN", "ERROR", "FATAL",
		"\n", c16Delim, "∥", "≔", "1", "k", "\x1b[31m", "\r", "\r\n"}
	n := 4
	if thorough {
		n = 5
	}
	var msgs []string
	c10Seq(toks, n, "", func(m string) { msgs = append(msgs, m) })
	for _, h := range []string{"client", "mapr", "health"} {
		for _, m := range msgs {
			out = append(out, c16Case{Handler: h, Stream: m + c16Delim})
		}
	}
	// well-formed and nearly well-formed records
	recs := []string{
		"REMOTE|h|100|1|f|text", "REMOTE|h| 42|1|f|WARN x", "REMOTE|h|100|1|f|", "REMOTE|h|100|1|f", "REMOTE|h|100|1", "REMOTE|h", "REMOTE",
		"REMOTEX|a|b|c|d|e|f|g", "SERVER|h|ERROR|boom", "SERVER|h", "SERVER", "CLIENT|h|FATAL|x", "CLIENT|h", "CLIENT",
		"AGGREGATE|h|k∥1∥count(x)≔1∥sum(y)≔2∥", "AGGREGATE|h|k∥x∥count(x)≔1∥", "AGGREGATE|h|k∥1", "AGGREGATE|h", "AGGREGATE", "A", "",
		"AGGREGATE|h|k∥1∥count(x)≔notanumber∥sum(y)≔∥", "AGGREGATE|h|∥∥∥∥", "AGGREGATE|h|a∥1∥k≔a∥s≔n/a∥count(x)≔1∥y≔x∥", "AGGREGATE|h|b∥2∥k≔b∥s≔7∥count(x)≔2∥max(y)≔1e+06∥", "AGGREGATE|h|c∥1∥k≔c∥count(x)≔1∥", ".syn close connection", ".", ".unknown",
		"REMOTE|h|100|1|f|text with € and \xff bytes", "REMOTE|h|100|1|f|a\nb", "plain text\n", "\n\n", "REMOTE|h|100|1|f|GET / HTTP/1.1\r\n", "SERVER|h|WARN|progress 50%\r", "plain\r\n", "CLIENT|h|ERROR|x\r\r\n",
	}
	// text fields that are prefixes / near misses of the severity words the painter looks for, of every length
	for _, w := range []string{"WARN", "ERROR", "FATAL"} {
		for i := 1; i <= len(w); i++ {
			for _, tail := range []string{"", "x", "\n", " "} {
				t := w[:i] + tail
				recs = append(recs, "REMOTE|h|100|1|f|"+t, "SERVER|h|"+t, "CLIENT|h|"+t+"|x", "CLIENT|h|"+t)
			}
		}
	}
	// result-table cells that are not ASCII (multi-byte characters, invalid UTF-8, wide characters, a tab): column
	// widths and padding must come out the same in both colour modes
	recs = append(recs, "AGGREGATE|h|Zürich∥1∥k≔Zürich∥s≔Málaga∥count(x)≔1∥y≔3∥", "AGGREGATE|h|日本∥2∥k≔日本∥s≔\xff\xfe∥count(x)≔2∥y≔1∥",
		"AGGREGATE|h|a\tb∥1∥k≔a\tb∥s≔€€€€€€€€€€€€∥count(x)≔1∥sum(y)≔5∥y≔2∥", "AGGREGATE|h|é∥1∥count(x)≔1∥sum(y)≔2∥")
	recs = append(recs, "REMOTE|h|100|1|f|EOF\n", "REMOTE|h|100|1|f|Foo\n", "SERVER|h|FAIL", "REMOTE|h|100|1|f|E", "REMOTE|h|100|1|f|\n")
	// messages whose first field only STARTS with a record word, for the same server as genuine records (the painters
	// are chosen by prefix): anything remembered from one message must not show up in another
	recs = append(recs, "REMOTEX|h|b|c|d|e|f|g", "REMOTE_ADDR|h|10.0.0.7|GET|/index.html|200", "REMOTELY|h|100|1|f|text", "REMOTE|H|100|1|f|text", "REMOTE|h|100|2|g|other text",
		"SERVERS|h|ERROR|boom", "CLIENTS|h|FATAL|x", "SERVER|h|WARN|boom", "CLIENT|h|WARN|x", "AGGREGATES|h|k∥1∥count(x)≔1∥sum(y)≔2∥")
	var small []string
	c10Seq(toks, 1, "", func(m string) { small = append(small, m) })
	second := append(append([]string{}, recs...), small...)
	for _, h := range []string{"client", "mapr", "health", "mapr-orderby-field", "mapr-limit"} {
		for _, a := range recs {
			if strings.HasPrefix(h, "mapr-") && !strings.HasPrefix(a, "AGGREGATE") {
				continue
			}
			for _, b := range second {
				out = append(out, c16Case{Handler: h, Stream: a + c16Delim + b + c16Delim})
			}
			w := a + c16Delim
			for i := 1; i < len(w); i++ {
				out = append(out, c16Case{Handler: h, Stream: w, Chunk: i})
			}
		}
	}
	// records longer than the transport buffer and the handler's receive buffer growth steps, alone, followed by a
	// short record, and split at the 32 KiB transport boundaries
	long := []string{"REMOTE|h|100|1|f|" + strings.Repeat("x", 70000), "REMOTE|h|100|1|f|" + strings.Repeat("y", 32768-18), "AGGREGATE|h|" + strings.Repeat("k", 40000) + "∥1∥count(x)≔1∥sum(y)≔2∥",
		"SERVER|h|ERROR|" + strings.Repeat("e", 33000), strings.Repeat("p", 66000)}
	for _, h := range []string{"client", "mapr", "health"} {
		for _, a := range long {
			out = append(out, c16Case{Handler: h, Stream: a + c16Delim}, c16Case{Handler: h, Stream: a + c16Delim + "REMOTE|h|100|2|f|after" + c16Delim},
				c16Case{Handler: h, Stream: a + c16Delim + "REMOTE|h|100|2|f|after" + c16Delim, Chunk: 32768}, c16Case{Handler: h, Stream: a + c16Delim, Chunk: 32767},
				c16Case{Handler: h, Stream: ".syn close connection" + c16Delim + a + c16Delim, Chunk: 32768})
		}
	}
	if thorough {
		var two []string
		c10Seq(toks, 2, "", func(m string) { two = append(two, m) })
		for _, h := range []string{"client", "mapr"} {
			for _, a := range two {
				for _, b := range two {
					out = append(out, c16Case{Handler: h, Stream: a + c16Delim + b + c16Delim})
				}
			}
		}
	}
	return
}

func init() {
	Register(&Check{
		ID:    "C16",
		Level: "exploration",
		Rule: "server byte streams enumerated exhaustively: the record pairs include messages whose first field only starts with a record word (REMOTEX, REMOTE_ADDR, SERVERS, ...) for the same server as genuine records; every message of <=4 (quick) / <=5 (thorough) tokens over a 22-token alphabet (incl. CR and CRLF) (record words, '|', '.', the hidden close message, numbers, severities, " +
			"newline, the 0xAC message delimiter, the aggregate delimiters, an escape sequence), 34 well-formed/nearly well-formed records (incl. AGGREGATE records whose group keys and values are multi-byte, wide or invalid UTF-8) and ~230 records whose text field is a prefix or near miss of a severity word, each followed by every record or token, 5 records of 32-70 KB (alone, followed by a short record, split at the transport boundary), each record split across two Write calls " +
			"at every byte; each stream is fed to the real ClientHandler, MaprHandler (three queries, incl. order by a plain field and limit; the result report is produced afterwards) and HealthHandler twice (colours off/on) under the controlled scheduler; oracle: no panic in any goroutine and " +
			"strip(coloured) == strip(uncoloured) where strip removes SGR escape sequences (applied to both sides); the same for 8 records with the colours taken from the repository's example JSON configuration file; non-trivial = the stream makes the client print something; " +
			"plus, under ALL schedules within two deviations: a stream with the hidden close message written to each handler while one or two other goroutines shut the handler down and a third reads its commands (the tear-down of a connection), and AGGREGATE messages of two servers arriving while the reporter reads the shared result set: no panic, no deadlock, every message counted once",
		Assumptions: []string{"output goes through the real stdout logger into a virtual stdout; canonical schedule per stream (all schedules for the tear-down scenarios)"},
		Run: func(c *Ctx) {
			c16TearDown(c)
			c16Contention(c)
			if c.Shard == 0 {
				c16ConfigColours(c)
			}
			all := c16Cases(c.Thorough())
			var mine []c16Case
			for _, cs := range all {
				if c.Mine() {
					mine = append(mine, cs)
				}
			}
			idx := 0
			for idx < len(mine) {
				c16RunBatch(c, mine, &idx)
			}
			if len(mine) > 10 {
				c.Sample(mine[len(mine)/2])
			}
		},
		Replay: func(c *Ctx, rec *ViolationRec) string {
			var cs c16Case
			if err := jsonUnmarshal(rec.Input, &cs); err != nil {
				return "cannot decode input"
			}
			idx := 0
			c16RunBatch(c, []c16Case{cs}, &idx)
			if len(c.Res.Violations) > 0 {
				return c.Res.Violations[0].Msg
			}
			return ""
		},
	})
}
