// Package vtime replaces package time in rewritten code: the clock is virtual.
package vtime

import (
	"time"

	"github.com/mimecast/dtail/verif/vrt"
)

type (
	Duration   = time.Duration
	Time       = time.Time
	Month      = time.Month
	Weekday    = time.Weekday
	Location   = time.Location
	ParseError = time.ParseError
	Timer      = vrt.Timer
	Ticker     = vrt.Ticker
)

const (
	Nanosecond  = time.Nanosecond
	Microsecond = time.Microsecond
	Millisecond = time.Millisecond
	Second      = time.Second
	Minute      = time.Minute
	Hour        = time.Hour

	Layout      = time.Layout
	ANSIC       = time.ANSIC
	UnixDate    = time.UnixDate
	RubyDate    = time.RubyDate
	RFC822      = time.RFC822
	RFC822Z     = time.RFC822Z
	RFC850      = time.RFC850
	RFC1123     = time.RFC1123
	RFC1123Z    = time.RFC1123Z
	RFC3339     = time.RFC3339
	RFC3339Nano = time.RFC3339Nano
	Kitchen     = time.Kitchen
	Stamp       = time.Stamp
	StampMilli  = time.StampMilli
	StampMicro  = time.StampMicro
	StampNano   = time.StampNano
	DateTime    = time.DateTime
	DateOnly    = time.DateOnly
	TimeOnly    = time.TimeOnly

	January   = time.January
	February  = time.February
	March     = time.March
	April     = time.April
	May       = time.May
	June      = time.June
	July      = time.July
	August    = time.August
	September = time.September
	October   = time.October
	November  = time.November
	December  = time.December

	Sunday    = time.Sunday
	Monday    = time.Monday
	Tuesday   = time.Tuesday
	Wednesday = time.Wednesday
	Thursday  = time.Thursday
	Friday    = time.Friday
	Saturday  = time.Saturday
)

var (
	UTC   = time.UTC
	Local = time.UTC // deterministic
)

func Now() Time                             { return vrt.Now() }
func Since(t Time) Duration                 { return vrt.Now().Sub(t) }
func Until(t Time) Duration                 { return t.Sub(vrt.Now()) }
func Sleep(d Duration)                      { vrt.Sleep("", d) }
func After(d Duration) *vrt.Chan[Time]      { return vrt.After(d.String(), d) }
func Tick(d Duration) *vrt.Chan[Time]       { return vrt.NewTicker(d.String(), d).C }
func NewTimer(d Duration) *Timer            { return vrt.NewTimer(d.String(), d) }
func NewTicker(d Duration) *Ticker          { return vrt.NewTicker(d.String(), d) }
func AfterFunc(d Duration, f func()) *Timer { return vrt.AfterFunc(d.String(), d, f) }

func Parse(layout, value string) (Time, error) { return time.Parse(layout, value) }
func ParseInLocation(layout, value string, loc *Location) (Time, error) {
	return time.ParseInLocation(layout, value, loc)
}
func ParseDuration(s string) (Duration, error) { return time.ParseDuration(s) }
func Unix(sec, nsec int64) Time                { return time.Unix(sec, nsec) }
func UnixMilli(ms int64) Time                  { return time.UnixMilli(ms) }
func UnixMicro(us int64) Time                  { return time.UnixMicro(us) }
func Date(y int, m Month, d, h, mi, s, ns int, loc *Location) Time {
	return time.Date(y, m, d, h, mi, s, ns, loc)
}
func LoadLocation(name string) (*Location, error) { return time.LoadLocation(name) }
func FixedZone(name string, off int) *Location    { return time.FixedZone(name, off) }
