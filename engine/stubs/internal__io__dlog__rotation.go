// Stub used under the controlled runtime: os/signal hands a native channel to
// the Go runtime, which the virtual scheduler cannot own.  Log rotation on
// SIGHUP is outside every property.
package dlog

import context "github.com/mimecast/dtail/verif/vcontext"

func rotation(ctx context.Context) {}
