module github.com/mimecast/dtail/verif

go 1.20

require (
	github.com/DataDog/zstd v1.5.6
	github.com/mimecast/dtail v0.0.0
	golang.org/x/crypto v0.26.0
)

require (
	golang.org/x/sys v0.23.0 // indirect
	golang.org/x/term v0.23.0 // indirect
)

replace github.com/mimecast/dtail => /repo
