package vrt

import (
	"fmt"
	"sort"
	"strings"
)

// Ordered is the constraint for sortable map keys.
type Ordered interface {
	~int | ~int8 | ~int16 | ~int32 | ~int64 | ~uint | ~uint8 | ~uint16 | ~uint32 | ~uint64 | ~uintptr |
		~float32 | ~float64 | ~string
}

// SortedKeys returns the keys of m in ascending order (map iteration order is
// a source of nondeterminism the harness must own).
func SortedKeys[M ~map[K]V, K Ordered, V any](m M) []K {
	keys := make([]K, 0, len(m))
	for k := range m {
		keys = append(keys, k)
	}
	sort.Slice(keys, func(i, j int) bool { return keys[i] < keys[j] })
	return keys
}

// ---------------------------------------------------------------------------
// virtual standard output

// StdoutSink receives everything rewritten code prints with fmt.Print*.
type StdoutSink struct {
	Buf strings.Builder
	// Pipe, when non-nil, makes every print a blocking send to a consumer.
	Pipe   *Chan[string]
	Frozen bool
	Writes int
}

// Out returns the sink of the current world.
func Out() *StdoutSink {
	w := W
	if w == nil {
		return &StdoutSink{}
	}
	s, ok := w.Locals["stdout"].(*StdoutSink)
	if !ok {
		s = &StdoutSink{}
		w.Locals["stdout"] = s
	}
	return s
}

func (s *StdoutSink) write(str string) {
	if s.Frozen {
		return
	}
	s.Writes++
	if s.Pipe != nil {
		s.Pipe.Send("stdout", str)
		return
	}
	s.Buf.WriteString(str)
}

// StdoutPrint is fmt.Print on the virtual stdout.
func StdoutPrint(a ...interface{}) (int, error) {
	s := fmt.Sprint(a...)
	Out().write(s)
	return len(s), nil
}

// StdoutPrintln is fmt.Println on the virtual stdout.
func StdoutPrintln(a ...interface{}) (int, error) {
	s := fmt.Sprintln(a...)
	Out().write(s)
	return len(s), nil
}

// StdoutPrintf is fmt.Printf on the virtual stdout.
func StdoutPrintf(f string, a ...interface{}) (int, error) {
	s := fmt.Sprintf(f, a...)
	Out().write(s)
	return len(s), nil
}

// HookEvent is one function-entry observation (T9 hooks inserted by the
// rewriter; used only for observation, never to change behaviour).
type HookEvent struct {
	Name string
	Recv interface{}
	Step int
	G    int
}

// OnHook lets a harness run code in the goroutine that enters a hooked
// function (used only to give each in-process "server" its own environment,
// e.g. host name, as separate machines have).
var OnHook = map[string]func(recv interface{}){}

// Hook records the entry of a hooked function.
func Hook(name string, recv interface{}) {
	w := W
	if w == nil {
		return
	}
	if f := OnHook[name]; f != nil {
		f(recv)
	}
	g := -1
	if w.cur != nil {
		g = w.cur.ID
	}
	w.Hooks = append(w.Hooks, HookEvent{Name: name, Recv: recv, Step: w.Steps, G: g})
	if w.cfg.Trace {
		w.Trace = append(w.Trace, TraceEvent{Step: w.Steps, G: g, Name: "hook", Op: "enter", Obj: name})
	}
}

type resetFn struct {
	name string
	f    func()
}

var resets []resetFn

// RegisterReset registers a function that re-initialises the package-level
// variables of one rewritten source file.
func RegisterReset(name string, f func()) { resets = append(resets, resetFn{name, f}) }

func runResets() {
	for _, r := range resets {
		r.f()
	}
}

// Zero returns the zero value of T (used by the generated reset functions;
// `new` may be shadowed in the rewritten package).
func Zero[T any]() (z T) { return }

// Forget drops the bookkeeping of objects created so far in this execution: the registry of channels and atomic
// words that feeds the state hash, the recorded hook events and the records of finished goroutines.  A harness
// that evaluates many independent cases inside ONE long execution calls it between cases (at a quiescent point) so
// that memory does not grow with the number of cases.  State hashes are only counted, never used for pruning, so
// forgetting an object that is in fact still in use affects nothing but that statistic.
func Forget() {
	w := W
	if w == nil {
		return
	}
	w.hashers = nil
	w.words = map[interface{}]uint64{}
	w.Hooks = nil
	for i, g := range w.gs {
		if g != nil && g.state == gDone {
			w.gs[i] = nil
		}
	}
}
