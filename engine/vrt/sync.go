package vrt

import (
	"bytes"
	"fmt"
	"reflect"
	"strings"
)

// Mutex is the virtual sync.Mutex (zero value usable, also across executions).
type Mutex struct {
	epoch   uint64
	id      uint64
	locked  bool
	relH    uint64
	waiters []*G
}

func (m *Mutex) init() {
	w := W
	if m.epoch != w.Epoch {
		m.epoch = w.Epoch
		m.id = w.newKey()
		m.locked = false
		m.waiters = nil
		m.relH = 0
	}
}

type lockOp struct {
	m    *Mutex
	site string
}

func (o *lockOp) attempt(w *World, g *G, alt int) bool {
	if !o.m.locked {
		o.m.locked = true
		g.Hist = mix(mix(g.Hist, mix(o.m.id, 5)), o.m.relH)
		return true
	}
	o.m.waiters = append(o.m.waiters, g)
	return false
}
func (o *lockOp) readyCases(w *World) []int { return nil }
func (o *lockOp) info() OpInfo {
	return OpInfo{Kind: "lock", Obj: fmt.Sprintf("mutex#%x", o.m.id&0xffff), Site: o.site}
}

// Lock locks m.
func (m *Mutex) Lock() {
	if W == nil {
		return
	}
	m.init()
	W.yield(&lockOp{m: m})
}

// TryLock tries to lock m.
func (m *Mutex) TryLock() bool {
	if W == nil {
		return true
	}
	m.init()
	ok := false
	Visible("trylock", fmt.Sprintf("mutex#%x", m.id&0xffff), "", func() {
		if !m.locked {
			m.locked = true
			ok = true
		}
	})
	return ok
}

// Unlock unlocks m.  All waiters become runnable again and re-attempt.
func (m *Mutex) Unlock() {
	if W == nil {
		return
	}
	m.init()
	var pv interface{}
	Visible("unlock", fmt.Sprintf("mutex#%x", m.id&0xffff), "", func() {
		if !m.locked {
			pv = "sync: unlock of unlocked mutex"
			return
		}
		m.locked = false
		if g := Cur(); g != nil {
			g.Hist = mix(g.Hist, mix(m.id, 6))
			m.relH = g.Hist
		}
		for _, g := range m.waiters {
			g.state = gPending // re-attempt
		}
		m.waiters = nil
	})
	if pv != nil {
		panic(pv)
	}
}

// RWMutex is the virtual sync.RWMutex: readers share, a writer excludes, and - as in the Go runtime - a writer that
// waits keeps NEW readers out (so a goroutine that read-locks recursively while a writer arrived in between blocks
// for ever, which the deadlock detection then reports).
type RWMutex struct {
	epoch   uint64
	id      uint64
	writer  bool
	readers int
	wwait   map[*G]bool // goroutines blocked in Lock
	relH    uint64
	waiters []*G
}

func (m *RWMutex) init() {
	w := W
	if m.epoch != w.Epoch {
		m.epoch = w.Epoch
		m.id = w.newKey()
		m.writer, m.readers, m.wwait, m.waiters, m.relH = false, 0, map[*G]bool{}, nil, 0
	}
}

type rwLockOp struct {
	m     *RWMutex
	write bool
}

func (o *rwLockOp) attempt(w *World, g *G, alt int) bool {
	m := o.m
	if o.write {
		if !m.writer && m.readers == 0 {
			m.writer = true
			delete(m.wwait, g)
			g.Hist = mix(mix(g.Hist, mix(m.id, 5)), m.relH)
			return true
		}
		m.wwait[g] = true
		m.waiters = append(m.waiters, g)
		return false
	}
	if !m.writer && len(m.wwait) == 0 {
		m.readers++
		g.Hist = mix(mix(g.Hist, mix(m.id, 7)), m.relH)
		return true
	}
	m.waiters = append(m.waiters, g)
	return false
}
func (o *rwLockOp) readyCases(w *World) []int { return nil }
func (o *rwLockOp) info() OpInfo {
	return OpInfo{Kind: "lock", Obj: fmt.Sprintf("rwmutex#%x", o.m.id&0xffff)}
}

func (m *RWMutex) release(write bool) {
	m.init()
	var pv interface{}
	Visible("unlock", fmt.Sprintf("rwmutex#%x", m.id&0xffff), "", func() {
		if write {
			if !m.writer {
				pv = "sync: Unlock of unlocked RWMutex"
				return
			}
			m.writer = false
		} else {
			if m.readers == 0 {
				pv = "sync: RUnlock of unlocked RWMutex"
				return
			}
			m.readers--
		}
		if g := Cur(); g != nil {
			g.Hist = mix(g.Hist, mix(m.id, 6))
			m.relH = g.Hist
		}
		for _, g := range m.waiters {
			g.state = gPending // re-attempt
		}
		m.waiters = nil
	})
	if pv != nil {
		panic(pv)
	}
}

// Lock takes the write lock.
func (m *RWMutex) Lock() {
	if W == nil {
		return
	}
	m.init()
	W.yield(&rwLockOp{m: m, write: true})
}

// Unlock releases the write lock.
func (m *RWMutex) Unlock() {
	if W == nil {
		return
	}
	m.release(true)
}

// RLock takes a read lock.
func (m *RWMutex) RLock() {
	if W == nil {
		return
	}
	m.init()
	W.yield(&rwLockOp{m: m})
}

// RUnlock releases a read lock.
func (m *RWMutex) RUnlock() {
	if W == nil {
		return
	}
	m.release(false)
}

// TryLock tries to take the write lock.
func (m *RWMutex) TryLock() bool {
	if W == nil {
		return true
	}
	m.init()
	ok := false
	Visible("trylock", fmt.Sprintf("rwmutex#%x", m.id&0xffff), "", func() {
		if !m.writer && m.readers == 0 {
			m.writer, ok = true, true
		}
	})
	return ok
}

// TryRLock tries to take a read lock.
func (m *RWMutex) TryRLock() bool {
	if W == nil {
		return true
	}
	m.init()
	ok := false
	Visible("trylock", fmt.Sprintf("rwmutex#%x", m.id&0xffff), "", func() {
		if !m.writer && len(m.wwait) == 0 {
			m.readers++
			ok = true
		}
	})
	return ok
}

type rlocker struct{ m *RWMutex }

func (r rlocker) Lock()   { r.m.RLock() }
func (r rlocker) Unlock() { r.m.RUnlock() }

// RLocker returns a Locker for the read side.
func (m *RWMutex) RLocker() interface {
	Lock()
	Unlock()
} {
	return rlocker{m}
}

// Swap, CompareAndSwap, CompareAndDelete of sync.Map (Go 1.20).
func (m *Map) Swap(key, value interface{}) (prev interface{}, loaded bool) {
	m.step(func() {
		prev, loaded = m.m[key]
		if !loaded {
			m.keys = append(m.keys, key)
		}
		m.m[key] = value
	})
	return
}

func (m *Map) CompareAndSwap(key, old, new interface{}) (ok bool) {
	m.step(func() {
		if v, has := m.m[key]; has && v == old {
			m.m[key] = new
			ok = true
		}
	})
	return
}

func (m *Map) CompareAndDelete(key, old interface{}) (ok bool) {
	m.step(func() {
		if v, has := m.m[key]; has && v == old {
			delete(m.m, key)
			ok = true
		}
	})
	return
}

// WaitGroup is the virtual sync.WaitGroup.
type WaitGroup struct {
	epoch   uint64
	id      uint64
	n       int
	doneH   uint64
	waiters []*G
}

func (wg *WaitGroup) init() {
	w := W
	if wg.epoch != w.Epoch {
		wg.epoch = w.Epoch
		wg.id = w.newKey()
		wg.n = 0
		wg.waiters = nil
		wg.doneH = 0
	}
}

// Add adds delta.
func (wg *WaitGroup) Add(delta int) {
	if W == nil {
		return
	}
	wg.init()
	var pv interface{}
	Visible("wgadd", fmt.Sprintf("wg#%x", wg.id&0xffff), "", func() {
		wg.n += delta
		if g := Cur(); g != nil {
			g.Hist = mix(g.Hist, mix(wg.id, 7))
			wg.doneH = mix(wg.doneH, g.Hist)
		}
		if wg.n < 0 {
			pv = "sync: negative WaitGroup counter"
			return
		}
		if wg.n == 0 {
			for _, g := range wg.waiters {
				g.Hist = mix(g.Hist, wg.doneH)
				W.makeReady(g)
			}
			wg.waiters = nil
		}
	})
	if pv != nil {
		panic(pv)
	}
}

// Done is Add(-1).
func (wg *WaitGroup) Done() { wg.Add(-1) }

type wgWaitOp struct{ wg *WaitGroup }

func (o *wgWaitOp) attempt(w *World, g *G, alt int) bool {
	if o.wg.n == 0 {
		g.Hist = mix(mix(g.Hist, mix(o.wg.id, 8)), o.wg.doneH)
		return true
	}
	o.wg.waiters = append(o.wg.waiters, g)
	return false
}
func (o *wgWaitOp) readyCases(w *World) []int { return nil }
func (o *wgWaitOp) info() OpInfo {
	return OpInfo{Kind: "wgwait", Obj: fmt.Sprintf("wg#%x", o.wg.id&0xffff)}
}

// Wait waits for the counter to become zero.
func (wg *WaitGroup) Wait() {
	if W == nil {
		return
	}
	wg.init()
	W.yield(&wgWaitOp{wg: wg})
}

// Once is the virtual sync.Once.
type Once struct {
	m    Mutex
	done bool
	ep   uint64
}

// Do runs f once.
func (o *Once) Do(f func()) {
	if W == nil {
		f()
		return
	}
	if o.ep != W.Epoch {
		o.ep = W.Epoch
		o.done = false
	}
	o.m.Lock()
	defer o.m.Unlock()
	if !o.done {
		defer func() { o.done = true }()
		f()
	}
}

// Pool is a deterministic LIFO sync.Pool (maximises re-use, so aliasing bugs
// around recycled buffers show deterministically).  Not a scheduling point.
type Pool struct {
	New   func() interface{}
	epoch uint64
	items []interface{}
	in    map[uintptr]bool // addresses of the pointer items that are in the pool
}

func ptrOf(x interface{}) uintptr {
	if v := reflect.ValueOf(x); x != nil && v.Kind() == reflect.Ptr && !v.IsNil() {
		return v.Pointer()
	}
	return 0
}

// Get takes an item.
func (p *Pool) Get() interface{} {
	if W != nil && p.epoch != W.Epoch {
		p.epoch = W.Epoch
		p.items, p.in = nil, nil
	}
	if n := len(p.items); n > 0 {
		x := p.items[n-1]
		p.items = p.items[:n-1]
		delete(p.in, ptrOf(x))
		return x
	}
	if p.New != nil {
		return p.New()
	}
	return nil
}

// Put returns an item.
func (p *Pool) Put(x interface{}) {
	if W != nil && p.epoch != W.Epoch {
		p.epoch = W.Epoch
		p.items, p.in = nil, nil
	}
	// an object that is in the pool already would be handed to two later owners: whoever puts it back a second time
	// did not own it any more (pointer identity)
	if a := ptrOf(x); a != 0 && W != nil && !NoPoison {
		if p.in[a] {
			Failf("pool", "a %T was returned to its sync.Pool twice without having been taken out in between: two later owners will share it (lost, duplicated or foreign content)", x)
			return
		}
		if p.in == nil {
			p.in = map[uintptr]bool{}
		}
		p.in[a] = true
	}
	poison(x)
	p.items = append(p.items, x)
}

// poison makes use-after-recycle visible whatever the timing: whoever still holds a reference to a
// recycled object (or to the storage of a recycled, reset buffer) must not use it any more, so the
// pool may do with it what the next owner would.  An empty *bytes.Buffer gets its whole capacity
// overwritten with 0xDB (and is reset again); a pointer to any other struct is set to its zero
// value when the pool has a New function (the next owner initialises every field, as after New).
func poison(x interface{}) {
	if NoPoison {
		return
	}
	if b, ok := x.(*bytes.Buffer); ok {
		if b != nil && b.Len() == 0 && b.Cap() > 0 {
			n := b.Cap()
			for i := 0; i < n; i++ {
				b.WriteByte(0xDB)
			}
			b.Reset()
		}
		return
	}
	if _, ok := x.(*strings.Builder); ok {
		return
	}
	v := reflect.ValueOf(x)
	if v.Kind() == reflect.Ptr && !v.IsNil() && v.Elem().Kind() == reflect.Struct && v.Elem().CanSet() {
		v.Elem().Set(reflect.Zero(v.Elem().Type()))
	}
}

// NoPoison switches the poisoning of recycled objects off (litmus tests only).
var NoPoison bool

// AtomicOp runs f as one visible atomic step on the word identified by ptr.
// f returns the value it observed / wrote (folded into the histories).
func AtomicOp(ptr interface{}, f func() uint64) {
	if W == nil {
		f()
		return
	}
	Visible("atomic", "atomic", "", func() {
		v := f()
		w := W
		if g := Cur(); g != nil {
			g.Hist = mix(mix(g.Hist, v), w.words[ptr])
			w.words[ptr] = mix(w.words[ptr], mix(v, 0xa7))
		}
	})
}

// Map is the virtual sync.Map: every operation is one visible atomic step.
// The zero value is usable; it is emptied at the start of every execution.
type Map struct {
	epoch uint64
	m     map[interface{}]interface{}
	keys  []interface{} // insertion order, for a deterministic Range
}

func (m *Map) init() {
	ep := uint64(0)
	if W != nil {
		ep = W.Epoch
	}
	if m.m == nil || m.epoch != ep {
		m.epoch = ep
		m.m = map[interface{}]interface{}{}
		m.keys = nil
	}
}

func (m *Map) step(f func()) {
	m.init()
	if W == nil {
		f()
		return
	}
	AtomicOp(m, func() uint64 { f(); return uint64(len(m.m)) })
}

// Load returns the value stored for a key.
func (m *Map) Load(key interface{}) (v interface{}, ok bool) {
	m.step(func() { v, ok = m.m[key] })
	return
}

// Store sets the value for a key.
func (m *Map) Store(key, value interface{}) {
	m.step(func() {
		if _, ok := m.m[key]; !ok {
			m.keys = append(m.keys, key)
		}
		m.m[key] = value
	})
}

// LoadOrStore returns the existing value or stores the given one.
func (m *Map) LoadOrStore(key, value interface{}) (actual interface{}, loaded bool) {
	m.step(func() {
		if v, ok := m.m[key]; ok {
			actual, loaded = v, true
			return
		}
		m.keys = append(m.keys, key)
		m.m[key] = value
		actual = value
	})
	return
}

// LoadAndDelete deletes the value for a key, returning the previous value.
func (m *Map) LoadAndDelete(key interface{}) (v interface{}, loaded bool) {
	m.step(func() {
		v, loaded = m.m[key]
		delete(m.m, key)
	})
	return
}

// Delete deletes the value for a key.
func (m *Map) Delete(key interface{}) { m.LoadAndDelete(key) }

// Range calls f for each key in insertion order.
func (m *Map) Range(f func(key, value interface{}) bool) {
	var ks []interface{}
	m.step(func() { ks = append(ks, m.keys...) })
	for _, k := range ks {
		v, ok := m.Load(k)
		if !ok {
			continue
		}
		if !f(k, v) {
			return
		}
	}
}

// Cond is the virtual sync.Cond.
type Cond struct {
	L interface {
		Lock()
		Unlock()
	}
	epoch   uint64
	waiters []*G
}

// NewCond returns a new Cond.
func NewCond(l interface {
	Lock()
	Unlock()
}) *Cond {
	return &Cond{L: l}
}

type condWaitOp struct{ c *Cond }

func (o *condWaitOp) attempt(w *World, g *G, alt int) bool {
	o.c.waiters = append(o.c.waiters, g)
	return false
}
func (o *condWaitOp) readyCases(w *World) []int { return nil }
func (o *condWaitOp) info() OpInfo              { return OpInfo{Kind: "condwait", Obj: "cond"} }

// Wait unlocks c.L, waits for a signal and locks c.L again.
func (c *Cond) Wait() {
	if W == nil {
		return
	}
	if c.epoch != W.Epoch {
		c.epoch = W.Epoch
		c.waiters = nil
	}
	c.L.Unlock()
	W.yield(&condWaitOp{c: c})
	c.L.Lock()
}

// Signal wakes one waiter.
func (c *Cond) Signal() {
	Visible("condsignal", "cond", "", func() {
		if len(c.waiters) > 0 {
			W.makeReady(c.waiters[0])
			c.waiters = c.waiters[1:]
		}
	})
}

// Broadcast wakes all waiters.
func (c *Cond) Broadcast() {
	Visible("condbroadcast", "cond", "", func() {
		for _, g := range c.waiters {
			W.makeReady(g)
		}
		c.waiters = nil
	})
}
