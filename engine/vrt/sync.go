package vrt

import "fmt"

// Mutex is the virtual sync.Mutex (zero value usable, also across executions).
type Mutex struct {
	epoch   uint64
	id      uint64
	locked  bool
	relH    uint64
	waiters []*G
}

func (m *Mutex) init() {
	w := W
	if m.epoch != w.Epoch {
		m.epoch = w.Epoch
		m.id = w.newKey()
		m.locked = false
		m.waiters = nil
		m.relH = 0
	}
}

type lockOp struct {
	m    *Mutex
	site string
}

func (o *lockOp) attempt(w *World, g *G, alt int) bool {
	if !o.m.locked {
		o.m.locked = true
		g.Hist = mix(mix(g.Hist, mix(o.m.id, 5)), o.m.relH)
		return true
	}
	o.m.waiters = append(o.m.waiters, g)
	return false
}
func (o *lockOp) readyCases(w *World) []int { return nil }
func (o *lockOp) info() OpInfo {
	return OpInfo{Kind: "lock", Obj: fmt.Sprintf("mutex#%x", o.m.id&0xffff), Site: o.site}
}

// Lock locks m.
func (m *Mutex) Lock() {
	if W == nil {
		return
	}
	m.init()
	W.yield(&lockOp{m: m})
}

// TryLock tries to lock m.
func (m *Mutex) TryLock() bool {
	if W == nil {
		return true
	}
	m.init()
	ok := false
	Visible("trylock", fmt.Sprintf("mutex#%x", m.id&0xffff), "", func() {
		if !m.locked {
			m.locked = true
			ok = true
		}
	})
	return ok
}

// Unlock unlocks m.  All waiters become runnable again and re-attempt.
func (m *Mutex) Unlock() {
	if W == nil {
		return
	}
	m.init()
	var pv interface{}
	Visible("unlock", fmt.Sprintf("mutex#%x", m.id&0xffff), "", func() {
		if !m.locked {
			pv = "sync: unlock of unlocked mutex"
			return
		}
		m.locked = false
		if g := Cur(); g != nil {
			g.Hist = mix(g.Hist, mix(m.id, 6))
			m.relH = g.Hist
		}
		for _, g := range m.waiters {
			g.state = gPending // re-attempt
		}
		m.waiters = nil
	})
	if pv != nil {
		panic(pv)
	}
}

// RWMutex is modelled as a plain mutex plus reader count.
type RWMutex struct {
	mu      Mutex
	readers int
}

// Lock takes the write lock.
func (m *RWMutex) Lock() { m.mu.Lock() }

// Unlock releases the write lock.
func (m *RWMutex) Unlock() { m.mu.Unlock() }

// RLock takes the lock (readers are serialised: a sound over-approximation of
// blocking behaviour is not needed by dtail, which has no RWMutex today).
func (m *RWMutex) RLock() { m.mu.Lock() }

// RUnlock releases it.
func (m *RWMutex) RUnlock() { m.mu.Unlock() }

// WaitGroup is the virtual sync.WaitGroup.
type WaitGroup struct {
	epoch   uint64
	id      uint64
	n       int
	doneH   uint64
	waiters []*G
}

func (wg *WaitGroup) init() {
	w := W
	if wg.epoch != w.Epoch {
		wg.epoch = w.Epoch
		wg.id = w.newKey()
		wg.n = 0
		wg.waiters = nil
		wg.doneH = 0
	}
}

// Add adds delta.
func (wg *WaitGroup) Add(delta int) {
	if W == nil {
		return
	}
	wg.init()
	var pv interface{}
	Visible("wgadd", fmt.Sprintf("wg#%x", wg.id&0xffff), "", func() {
		wg.n += delta
		if g := Cur(); g != nil {
			g.Hist = mix(g.Hist, mix(wg.id, 7))
			wg.doneH = mix(wg.doneH, g.Hist)
		}
		if wg.n < 0 {
			pv = "sync: negative WaitGroup counter"
			return
		}
		if wg.n == 0 {
			for _, g := range wg.waiters {
				g.Hist = mix(g.Hist, wg.doneH)
				W.makeReady(g)
			}
			wg.waiters = nil
		}
	})
	if pv != nil {
		panic(pv)
	}
}

// Done is Add(-1).
func (wg *WaitGroup) Done() { wg.Add(-1) }

type wgWaitOp struct{ wg *WaitGroup }

func (o *wgWaitOp) attempt(w *World, g *G, alt int) bool {
	if o.wg.n == 0 {
		g.Hist = mix(mix(g.Hist, mix(o.wg.id, 8)), o.wg.doneH)
		return true
	}
	o.wg.waiters = append(o.wg.waiters, g)
	return false
}
func (o *wgWaitOp) readyCases(w *World) []int { return nil }
func (o *wgWaitOp) info() OpInfo {
	return OpInfo{Kind: "wgwait", Obj: fmt.Sprintf("wg#%x", o.wg.id&0xffff)}
}

// Wait waits for the counter to become zero.
func (wg *WaitGroup) Wait() {
	if W == nil {
		return
	}
	wg.init()
	W.yield(&wgWaitOp{wg: wg})
}

// Once is the virtual sync.Once.
type Once struct {
	m    Mutex
	done bool
	ep   uint64
}

// Do runs f once.
func (o *Once) Do(f func()) {
	if W == nil {
		f()
		return
	}
	if o.ep != W.Epoch {
		o.ep = W.Epoch
		o.done = false
	}
	o.m.Lock()
	defer o.m.Unlock()
	if !o.done {
		defer func() { o.done = true }()
		f()
	}
}

// Pool is a deterministic LIFO sync.Pool (maximises re-use, so aliasing bugs
// around recycled buffers show deterministically).  Not a scheduling point.
type Pool struct {
	New   func() interface{}
	epoch uint64
	items []interface{}
}

// Get takes an item.
func (p *Pool) Get() interface{} {
	if W != nil && p.epoch != W.Epoch {
		p.epoch = W.Epoch
		p.items = nil
	}
	if n := len(p.items); n > 0 {
		x := p.items[n-1]
		p.items = p.items[:n-1]
		return x
	}
	if p.New != nil {
		return p.New()
	}
	return nil
}

// Put returns an item.
func (p *Pool) Put(x interface{}) {
	if W != nil && p.epoch != W.Epoch {
		p.epoch = W.Epoch
		p.items = nil
	}
	p.items = append(p.items, x)
}

// AtomicOp runs f as one visible atomic step on the word identified by ptr.
// f returns the value it observed / wrote (folded into the histories).
func AtomicOp(ptr interface{}, f func() uint64) {
	if W == nil {
		f()
		return
	}
	Visible("atomic", "atomic", "", func() {
		v := f()
		w := W
		if g := Cur(); g != nil {
			g.Hist = mix(mix(g.Hist, v), w.words[ptr])
			w.words[ptr] = mix(w.words[ptr], mix(v, 0xa7))
		}
	})
}
