// Package vrt is the controlled runtime on which the rewritten dtail code runs.
//
// Exactly one managed goroutine runs at a time.  Every managed goroutine is a
// native goroutine parked on a private channel; when it reaches a *visible
// operation* (channel op, select, lock, wait-group, atomic, sleep, environment
// choice, ...) it registers the operation and hands control to the scheduler
// loop, which owns the complete state of all virtual channels, locks and
// timers.  The scheduler asks a Chooser which runnable goroutine attempts its
// pending operation next; an attempt either completes or parks the goroutine in
// the wait queues of the objects involved, exactly as the Go runtime does
// (FIFO wait queues, direct hand-off on rendez-vous, buffered channels, close
// waking everybody, nil channels blocking for ever).  Code between two visible
// operations is one atomic step.
package vrt

import (
	"fmt"
	"runtime/debug"
	"sort"
	"strings"
	"time"
)

// AltKind says what choosing an alternative does.
type AltKind uint8

const (
	// AltRun lets goroutine G attempt its pending operation (Case selects the
	// ready select case, or -1).
	AltRun AltKind = iota
	// AltDemote marks goroutine G as slow: it is not scheduled again until
	// nothing else is runnable.  The choice point is then re-evaluated.
	AltDemote
	// AltEnv is an answer to an environment question (vrt.Choose).
	AltEnv
	// AltDemoteLong is AltDemote, but the goroutine also stays unscheduled while
	// virtual time advances by up to LongDemotion (it models a goroutine that is
	// delayed for a short real-time span, e.g. by CPU starvation, while short
	// timers of other goroutines fire).
	AltDemoteLong
)

// LongDemotion is the real-time span a long demotion may last.
const LongDemotion = 150 * time.Millisecond

// Alt is one alternative at a choice point.
type Alt struct {
	Kind AltKind
	G    int
	Case int
}

// OpInfo describes a pending visible operation (for filters and traces).
type OpInfo struct {
	Kind string // send recv select close lock unlock wgadd wgwait atomic sleep choose ...
	Obj  string // label of the object (creation site + name), or ""
	Site string // source position of the operation
	ID   string // per-execution identity of the object(s), comma separated
}

// Point is a choice point handed to the Chooser.
type Point struct {
	Alts []Alt
	// Infos[i] describes the operation Alts[i] would attempt.
	Infos []OpInfo
	// CurRunnable is true when Alts[0] continues the goroutine that ran last.
	CurRunnable bool
	// Env is true for environment questions (all Alts are AltEnv).
	Env   bool
	Label string
	Step  int
}

// Chooser decides at every choice point.  Index 0 is the canonical choice.
type Chooser interface {
	Choose(p *Point) int
}

// ChooserFunc adapts a function.
type ChooserFunc func(p *Point) int

// Choose implements Chooser.
func (f ChooserFunc) Choose(p *Point) int { return f(p) }

// Policy orders the runnable goroutines at a forced switch.
type Policy int

const (
	// PolicyLowest prefers the lowest goroutine id (oldest goroutine).
	PolicyLowest Policy = iota
	// PolicyNewest prefers the highest goroutine id (newest goroutine).
	PolicyNewest
	// PolicyRoundRobin prefers the next id after the goroutine that ran last.
	PolicyRoundRobin
)

type gState uint8

const (
	gReady   gState = iota // has local code to run (new, or its op was completed)
	gPending               // at a visible op that has not been attempted
	gParked                // attempted, blocked in wait queues
	gRunning
	gDone
)

// G is a managed goroutine.
type G struct {
	ID      int
	Name    string
	state   gState
	wake    chan struct{}
	op      op
	demoted bool
	// demotedUntil: a long demotion lasts while the clock is before this instant
	demotedUntil time.Time
	// panicVal, when set, is raised in the goroutine when it resumes.
	panicVal interface{}
	// Hist is the happens-before history hash of this goroutine.
	Hist   uint64
	Labels map[string]string
	sleepT *timer
	// Key is a schedule-independent identity: hash of the spawn path.
	Key      uint64
	children int
	allocs   uint64
}

type op interface {
	// attempt is called by the scheduler. alt is the select case (or -1).
	// It returns true if the operation completed.
	attempt(w *World, g *G, alt int) bool
	// alts returns the ready select cases (nil for ordinary operations).
	readyCases(w *World) []int
	info() OpInfo
}

type timer struct {
	when time.Time
	key  uint64
	seq  int
	fire func(w *World)
	dead bool
}

// Failure describes why an execution failed.
type Failure struct {
	Kind string // panic deadlock horizon invariant harness
	Msg  string
}

func (f *Failure) Error() string { return f.Kind + ": " + f.Msg }

// TraceEvent is one executed step.
type TraceEvent struct {
	Step  int    `json:"step"`
	G     int    `json:"g"`
	Name  string `json:"name"`
	Op    string `json:"op"`
	Obj   string `json:"obj,omitempty"`
	ObjID string `json:"objid,omitempty"`
	Site  string `json:"site,omitempty"`
	Res   string `json:"res,omitempty"`
}

// Config configures one execution.
type Config struct {
	Chooser Chooser
	Policy  Policy
	// MaxSteps bounds the number of scheduler steps (0 = 2e6).
	MaxSteps int
	// Horizon bounds virtual time (0 = 1 virtual hour).
	Horizon time.Duration
	// Trace records every step.
	Trace bool
	// Invariant, if set, is evaluated after every step; a non-empty string is
	// a violation.
	Invariant func() string
	// OfferDemotion adds demotion alternatives to scheduling points.
	OfferDemotion bool
	// OfferLongDemotion adds long-demotion alternatives (see AltDemoteLong).
	OfferLongDemotion bool
	// VisibleFS makes vos file operations scheduling points.
	VisibleFS bool
}

// World is one controlled execution.
type World struct {
	cfg      Config
	gs       []*G // every goroutine ever spawned, indexed by ID
	live     []*G // goroutines that have not finished
	nDone    int
	doneHash uint64
	ready    []*G
	cur      *G
	last     *G
	back     chan struct{}
	now      time.Time
	timers   []*timer
	timerSeq int
	objSeq   int
	Steps    int
	Points   int
	aborting bool
	Fail     *Failure
	Trunc    string // non-empty when the execution was cut (steps / horizon)
	Trace    []TraceEvent
	mainDone bool
	// Epoch distinguishes executions for zero-value objects living in globals.
	Epoch uint64
	// per-world registries used by shims
	Locals map[string]interface{}
	// MaxEnabled is the largest number of alternatives seen.
	MaxEnabled int
	rootSpawns int
	// Hooks are the function-entry observations of this execution.
	Hooks   []HookEvent
	hashers []stateHasher
	words   map[interface{}]uint64
}

type stateHasher interface{ stateHash() uint64 }

// newKey returns a schedule-independent identity for an object allocated by
// the running goroutine.
func (w *World) newKey() uint64 {
	g := w.cur
	if g == nil {
		w.objSeq++
		return mix(0x1234, uint64(w.objSeq))
	}
	g.allocs++
	return mix(g.Key, g.allocs+0x77)
}

// StateHash is a hash of the global state: every goroutine's happens-before
// history and pending operation, channel contents and wait-queue orders, the
// clock and the pending timers.
func (w *World) StateHash() uint64 {
	h := mix(0x5151, uint64(w.now.UnixNano()))
	sum := w.doneHash
	for _, g := range w.live {
		if g.state == gDone {
			continue
		}
		x := mix(g.Key, g.Hist)
		x = mix(x, uint64(g.state))
		if g.demoted {
			x = mix(x, 0xdede)
		}
		sum += x
	}
	h = mix(h, sum)
	sum = 0
	for _, o := range w.hashers {
		sum += o.stateHash()
	}
	h = mix(h, sum)
	sum = 0
	for _, v := range w.words {
		sum += mix(v, 0x3b)
	}
	h = mix(h, sum)
	// timers in firing order
	var ts []*timer
	for _, t := range w.timers {
		if !t.dead {
			ts = append(ts, t)
		}
	}
	sort.Slice(ts, func(i, j int) bool {
		if !ts[i].when.Equal(ts[j].when) {
			return ts[i].when.Before(ts[j].when)
		}
		return ts[i].seq < ts[j].seq
	})
	for _, t := range ts {
		h = mix(h, mix(uint64(t.when.UnixNano()), t.key))
	}
	return h
}

var (
	// W is the current world (nil outside executions).
	W         *World
	epochSeq  uint64
	startTime = time.Date(2026, 1, 1, 0, 0, 0, 0, time.UTC)
)

type abortSentinel struct{}

// Result is what Run returns.
type Result struct {
	Fail   *Failure
	Trunc  string
	Steps  int
	Points int
	Trace  []TraceEvent
	Now    time.Duration
	// MaxEnabled is the largest alternative count seen at a choice point.
	MaxEnabled int
	Goroutines int
}

// Run executes body as goroutine 0 of a fresh world and returns when body
// has returned (or the execution failed / was cut).
func Run(cfg Config, body func()) Result {
	if W != nil {
		panic("vrt: nested Run")
	}
	if cfg.MaxSteps == 0 {
		cfg.MaxSteps = 2000000
	}
	if cfg.Horizon == 0 {
		cfg.Horizon = time.Hour
	}
	if cfg.Chooser == nil {
		cfg.Chooser = ChooserFunc(func(*Point) int { return 0 })
	}
	epochSeq++
	w := &World{cfg: cfg, back: make(chan struct{}), now: startTime, Epoch: epochSeq,
		Locals: map[string]interface{}{}, words: map[interface{}]uint64{}}
	W = w
	defer func() { W = nil }()
	runResets() // package-level variables of the rewritten code start every execution afresh
	w.spawn("main", func() {
		body()
		w.mainDone = true
	})
	w.loop()
	w.abortAll()
	return Result{Fail: w.Fail, Trunc: w.Trunc, Steps: w.Steps, Points: w.Points, Trace: w.Trace,
		Now: w.now.Sub(startTime), MaxEnabled: w.MaxEnabled, Goroutines: len(w.gs)}
}

func (w *World) spawn(name string, fn func()) *G {
	g := &G{ID: len(w.gs), Name: name, wake: make(chan struct{}), state: gReady}
	if w.cur != nil {
		w.cur.children++
		g.Key = mix(w.cur.Key, uint64(w.cur.children)+0x51)
		g.Hist = mix(w.cur.Hist, g.Key)
		if w.cur.Labels != nil {
			g.Labels = map[string]string{}
			for k, v := range w.cur.Labels {
				g.Labels[k] = v
			}
		}
	}
	if w.cur == nil {
		w.rootSpawns++
		g.Key = mix(0xabcdef, uint64(w.rootSpawns))
		g.Hist = g.Key
	}
	w.gs = append(w.gs, g)
	w.live = append(w.live, g)
	w.ready = append(w.ready, g)
	go func() {
		<-g.wake
		defer func() {
			r := recover()
			if r != nil {
				if _, ok := r.(abortSentinel); !ok && !w.aborting {
					w.fail("panic", fmt.Sprintf("goroutine %d (%s): %v\n%s", g.ID, g.Name, r, trimStack(debug.Stack())))
				}
			}
			g.state = gDone
			g.op = nil
			w.nDone++
			w.doneHash += mix(mix(g.Key, g.Hist), uint64(gDone))
			w.back <- struct{}{}
		}()
		if w.aborting {
			panic(abortSentinel{})
		}
		fn()
	}()
	return g
}

func trimStack(b []byte) string {
	lines := strings.Split(string(b), "\n")
	var out []string
	for i := 0; i < len(lines); i++ {
		l := lines[i]
		if strings.Contains(l, "/vrt.") || strings.Contains(l, "/vrt/") || strings.Contains(l, "runtime/") ||
			strings.HasPrefix(l, "panic(") || strings.HasPrefix(l, "runtime.") {
			continue
		}
		out = append(out, l)
		if len(out) > 24 {
			break
		}
	}
	return strings.Join(out, "\n")
}

func (w *World) fail(kind, msg string) {
	if w.Fail == nil {
		w.Fail = &Failure{Kind: kind, Msg: msg}
	}
}

// Failf records a violation found by harness code (first one wins).
func Failf(kind, format string, a ...interface{}) {
	if W != nil {
		W.fail(kind, fmt.Sprintf(format, a...))
	}
}

// resume runs g until it reaches its next visible operation or exits.
func (w *World) resume(g *G) {
	w.cur = g
	g.state = gRunning
	g.wake <- struct{}{}
	<-w.back
	w.cur = nil
}

// yield is called by the running goroutine when it reaches a visible op.
func (w *World) yield(o op) {
	g := w.cur
	if g == nil {
		panic("vrt: visible operation outside a managed goroutine")
	}
	if w.aborting {
		panic(abortSentinel{})
	}
	g.op = o
	g.state = gPending
	w.back <- struct{}{}
	<-g.wake
	if w.aborting {
		panic(abortSentinel{})
	}
	if g.panicVal != nil {
		p := g.panicVal
		g.panicVal = nil
		panic(p)
	}
}

// Cur returns the running goroutine.
func Cur() *G {
	if W == nil {
		return nil
	}
	return W.cur
}

func (w *World) makeReady(g *G) {
	g.state = gReady
	g.op = nil
	w.ready = append(w.ready, g)
}

func (w *World) popReady() *G {
	best := 0
	for i, g := range w.ready {
		if g.ID < w.ready[best].ID {
			best = i
		}
	}
	g := w.ready[best]
	w.ready = append(w.ready[:best], w.ready[best+1:]...)
	return g
}

func (w *World) loop() {
	for {
		for len(w.ready) > 0 {
			w.resume(w.popReady())
		}
		if w.Fail != nil || w.mainDone {
			return
		}
		if w.cfg.Invariant != nil {
			if s := w.cfg.Invariant(); s != "" {
				w.fail("invariant", s)
				return
			}
		}
		if w.Steps >= w.cfg.MaxSteps {
			w.Trunc = fmt.Sprintf("step cap %d reached", w.cfg.MaxSteps)
			return
		}
		if w.nDone > 64 && w.nDone*2 > len(w.live) {
			lv := w.live[:0]
			for _, g := range w.live {
				if g.state != gDone {
					lv = append(lv, g)
				}
			}
			w.live = lv
			w.nDone = 0
		}
		var run []*G
		anyDemoted := false
		for _, g := range w.live {
			if g.state == gPending {
				if g.demoted {
					anyDemoted = true
					continue
				}
				run = append(run, g)
			}
		}
		if len(run) == 0 && anyDemoted {
			// short demotions end now; long ones last while timers within their span remain
			released := false
			var horizon time.Time
			for _, g := range w.live {
				if !g.demoted {
					continue
				}
				if g.demotedUntil.IsZero() || !g.demotedUntil.After(w.now) {
					g.demoted = false
					g.demotedUntil = time.Time{}
					released = true
				} else if g.demotedUntil.After(horizon) {
					horizon = g.demotedUntil
				}
			}
			if released {
				continue
			}
			// only long-demoted goroutines are runnable: let a timer due within their span fire
			if t := w.earliestTimer(); t != nil && !t.when.After(horizon) {
				w.fireNextTimer()
				continue
			}
			for _, g := range w.live {
				g.demoted = false
				g.demotedUntil = time.Time{}
			}
			continue
		}
		if len(run) == 0 {
			if !w.fireNextTimer() {
				w.fail("deadlock", w.describeBlocked())
				return
			}
			continue
		}
		w.step(run)
	}
}

// order sorts runnable goroutines canonically: the goroutine that ran last
// first (if runnable), then by policy.
func (w *World) order(run []*G) (out []*G, curRunnable bool) {
	sort.Slice(run, func(i, j int) bool { return run[i].ID < run[j].ID })
	var cur *G
	for _, g := range run {
		if g == w.last {
			cur = g
		}
	}
	switch w.cfg.Policy {
	case PolicyNewest:
		for i, j := 0, len(run)-1; i < j; i, j = i+1, j-1 {
			run[i], run[j] = run[j], run[i]
		}
	case PolicyRoundRobin:
		if w.last != nil {
			k := 0
			for k < len(run) && run[k].ID <= w.last.ID {
				k++
			}
			run = append(append([]*G{}, run[k:]...), run[:k]...)
		}
	}
	if cur == nil {
		return run, false
	}
	out = append(out, cur)
	for _, g := range run {
		if g != cur {
			out = append(out, g)
		}
	}
	return out, true
}

func (w *World) step(run []*G) {
	run, curRunnable := w.order(run)
	p := Point{CurRunnable: curRunnable, Step: w.Steps}
	for _, g := range run {
		rc := g.op.readyCases(w)
		inf := g.op.info()
		if len(rc) == 0 {
			p.Alts = append(p.Alts, Alt{Kind: AltRun, G: g.ID, Case: -1})
			p.Infos = append(p.Infos, inf)
			continue
		}
		for _, c := range rc {
			p.Alts = append(p.Alts, Alt{Kind: AltRun, G: g.ID, Case: c})
			p.Infos = append(p.Infos, inf)
		}
	}
	if w.cfg.OfferDemotion && len(run) > 1 {
		p.Alts = append(p.Alts, Alt{Kind: AltDemote, G: run[0].ID, Case: -1})
		p.Infos = append(p.Infos, run[0].op.info())
	}
	if w.cfg.OfferLongDemotion {
		p.Alts = append(p.Alts, Alt{Kind: AltDemoteLong, G: run[0].ID, Case: -1})
		p.Infos = append(p.Infos, run[0].op.info())
	}
	idx := 0
	if len(p.Alts) > 1 {
		w.Points++
		if len(p.Alts) > w.MaxEnabled {
			w.MaxEnabled = len(p.Alts)
		}
		idx = w.cfg.Chooser.Choose(&p)
		if idx < 0 || idx >= len(p.Alts) {
			w.fail("harness", fmt.Sprintf("chooser returned %d of %d alternatives at step %d", idx, len(p.Alts), w.Steps))
			return
		}
	}
	a := p.Alts[idx]
	g := w.gs[a.G]
	if a.Kind == AltDemote || a.Kind == AltDemoteLong {
		g.demoted = true
		if a.Kind == AltDemoteLong {
			g.demotedUntil = w.now.Add(LongDemotion)
		}
		if w.cfg.Trace {
			w.Trace = append(w.Trace, TraceEvent{Step: w.Steps, G: g.ID, Name: g.Name, Op: "demote"})
		}
		return
	}
	w.Steps++
	o := g.op
	inf := p.Infos[idx]
	w.cur = g // attempts may need the current goroutine (history hashing)
	done := o.attempt(w, g, a.Case)
	w.cur = nil
	w.last = g
	if w.cfg.Trace {
		res := "done"
		if !done {
			res = "park"
		}
		if a.Case >= 0 {
			res += fmt.Sprintf(" case=%d", a.Case)
		}
		w.Trace = append(w.Trace, TraceEvent{Step: w.Steps, G: g.ID, Name: g.Name, Op: inf.Kind, Obj: inf.Obj, ObjID: inf.ID, Site: inf.Site, Res: res})
	}
	if done {
		if g.state == gPending { // not already re-queued by the op itself
			w.makeReady(g)
		}
	} else if g.state == gPending {
		g.state = gParked
	}
}

func (w *World) fireNextTimer() bool {
	var best *timer
	for _, t := range w.timers {
		if t.dead {
			continue
		}
		if best == nil || t.when.Before(best.when) || (t.when.Equal(best.when) && t.seq < best.seq) {
			best = t
		}
	}
	if best == nil {
		w.timers = w.timers[:0]
		return false
	}
	// every timer due at that instant fires before any goroutine runs again:
	// events of one instant are concurrent, their consequences interleave under
	// the explorer's control
	var due []*timer
	live := w.timers[:0]
	for _, t := range w.timers {
		if t.dead {
			continue
		}
		if t.when.Equal(best.when) {
			due = append(due, t)
		} else {
			live = append(live, t)
		}
	}
	w.timers = live
	sort.Slice(due, func(i, j int) bool { return due[i].seq < due[j].seq })
	if best.when.After(w.now) {
		w.now = best.when
	}
	if w.now.Sub(startTime) > w.cfg.Horizon {
		w.Trunc = fmt.Sprintf("virtual-time horizon %v reached", w.cfg.Horizon)
		w.mainDone = true
		w.fail("horizon", fmt.Sprintf("virtual time horizon %v reached with main not finished; %s", w.cfg.Horizon, w.describeBlocked()))
		return true
	}
	if w.cfg.Trace {
		w.Trace = append(w.Trace, TraceEvent{Step: w.Steps, G: -1, Name: "clock", Op: "timer", Res: fmt.Sprintf("%v (%d due)", w.now.Sub(startTime), len(due))})
	}
	for _, t := range due {
		t.dead = true
		t.fire(w)
	}
	return true
}

func (w *World) earliestTimer() *timer {
	var best *timer
	for _, t := range w.timers {
		if t.dead {
			continue
		}
		if best == nil || t.when.Before(best.when) {
			best = t
		}
	}
	return best
}

func (w *World) addTimer(d time.Duration, fire func(w *World)) *timer {
	if d < 0 {
		d = 0
	}
	w.timerSeq++
	t := &timer{when: w.now.Add(d), seq: w.timerSeq, fire: fire, key: w.newKey()}
	w.timers = append(w.timers, t)
	return t
}

func (w *World) describeBlocked() string {
	var sb strings.Builder
	for _, g := range w.live {
		if g.state == gParked || g.state == gPending {
			inf := OpInfo{}
			if g.op != nil {
				inf = g.op.info()
			}
			fmt.Fprintf(&sb, "g%d(%s) blocked in %s %s at %s; ", g.ID, g.Name, inf.Kind, inf.Obj, inf.Site)
		}
	}
	return sb.String()
}

// BlockedOnLocks describes the goroutines that are parked in a mutex operation right now ("" if none).  Called by a
// harness goroutine that has just slept for a long (virtual) time - time only advances when nothing is runnable - a
// non-empty answer means that the lock's holder is blocked as well.
func BlockedOnLocks() string {
	w := W
	if w == nil {
		return ""
	}
	var sb strings.Builder
	for _, g := range w.live {
		if (g.state == gParked || g.state == gPending) && g.op != nil && g.op.info().Kind == "lock" {
			inf := g.op.info()
			fmt.Fprintf(&sb, "g%d(%s) blocked in lock %s; ", g.ID, g.Name, inf.Obj)
		}
	}
	return sb.String()
}

// abortAll unwinds every goroutine that is still alive.
func (w *World) abortAll() {
	w.aborting = true
	for _, g := range w.live {
		if g.state == gDone {
			continue
		}
		w.cur = g
		g.wake <- struct{}{}
		<-w.back
	}
	w.cur = nil
}

// Go starts a managed goroutine.  Spawning is not a scheduling point.
func Go(site string, fn func()) {
	w := W
	if w == nil {
		panic("vrt.Go outside Run")
	}
	if w.aborting {
		panic(abortSentinel{})
	}
	w.spawn(site, fn)
}

// Now returns the virtual time.
func Now() time.Time {
	if W == nil {
		return startTime
	}
	return W.now
}

// SetLabel attaches a label to the running goroutine (inherited by children).
func SetLabel(k, v string) {
	g := Cur()
	if g == nil {
		return
	}
	if g.Labels == nil {
		g.Labels = map[string]string{}
	}
	g.Labels[k] = v
}

// Label reads a label of the running goroutine.
func Label(k string) string {
	g := Cur()
	if g == nil || g.Labels == nil {
		return ""
	}
	return g.Labels[k]
}

func mix(a, b uint64) uint64 {
	h := a ^ (b + 0x9e3779b97f4a7c15 + (a << 6) + (a >> 2))
	h *= 0xff51afd7ed558ccd
	h ^= h >> 33
	return h
}

func hashString(s string) uint64 {
	var h uint64 = 14695981039346656037
	for i := 0; i < len(s); i++ {
		h ^= uint64(s[i])
		h *= 1099511628211
	}
	return h
}

// ---------------------------------------------------------------------------
// generic always-enabled operation

type simpleOp struct {
	inf OpInfo
	do  func(w *World, g *G)
}

func (o *simpleOp) attempt(w *World, g *G, alt int) bool {
	if o.do != nil {
		o.do(w, g)
	}
	return true
}
func (o *simpleOp) readyCases(w *World) []int { return nil }
func (o *simpleOp) info() OpInfo              { return o.inf }

// Visible makes the calling goroutine pass through a scheduling point and
// performs do atomically when chosen.
func Visible(kind, obj, site string, do func()) {
	w := W
	if w == nil {
		if do != nil {
			do()
		}
		return
	}
	w.yield(&simpleOp{inf: OpInfo{Kind: kind, Obj: obj, Site: site}, do: func(*World, *G) {
		if do != nil {
			do()
		}
	}})
}

// ---------------------------------------------------------------------------
// environment choice

type chooseOp struct {
	n     int
	label string
	res   int
}

func (o *chooseOp) attempt(w *World, g *G, alt int) bool { return true }
func (o *chooseOp) readyCases(w *World) []int            { return nil }
func (o *chooseOp) info() OpInfo                         { return OpInfo{Kind: "choose", Obj: o.label} }

// Choose asks the environment (the explorer) for a value in [0,n).  0 is the
// default answer.  It is not a scheduling point.
func Choose(n int, label string) int {
	w := W
	if w == nil || n <= 1 {
		return 0
	}
	p := Point{Env: true, Label: label, Step: w.Steps}
	for i := 0; i < n; i++ {
		p.Alts = append(p.Alts, Alt{Kind: AltEnv, G: -1, Case: i})
		p.Infos = append(p.Infos, OpInfo{Kind: "choose", Obj: label})
	}
	w.Points++
	idx := w.cfg.Chooser.Choose(&p)
	if idx < 0 || idx >= n {
		w.fail("harness", fmt.Sprintf("chooser returned %d of %d env alternatives", idx, n))
		return 0
	}
	if w.cfg.Trace {
		w.Trace = append(w.Trace, TraceEvent{Step: w.Steps, G: -1, Name: "env", Op: "choose", Obj: label, Res: fmt.Sprint(idx)})
	}
	if w.cur != nil {
		w.cur.Hist = mix(w.cur.Hist, uint64(idx)+77)
	}
	return idx
}

// Sleep parks the goroutine for d of virtual time.
func Sleep(site string, d time.Duration) {
	w := W
	if w == nil {
		return
	}
	w.yield(&sleepOp{d: d, site: site})
}

type sleepOp struct {
	d    time.Duration
	site string
}

func (o *sleepOp) attempt(w *World, g *G, alt int) bool {
	gg := g
	w.addTimer(o.d, func(w *World) { w.makeReady(gg) })
	g.state = gParked
	return false
}
func (o *sleepOp) readyCases(w *World) []int { return nil }
func (o *sleepOp) info() OpInfo              { return OpInfo{Kind: "sleep", Obj: o.d.String(), Site: o.site} }

// Yield is a plain scheduling point.
func Yield(site string) {
	Visible("yield", "", site, nil)
}
