package vrt

import (
	"fmt"
	"unsafe"
)

// Chan is the virtual channel that replaces `chan T` in rewritten code.
// A nil *Chan behaves like a nil channel.
type Chan[T any] struct {
	w      *World
	id     uint64
	label  string
	cap    int
	buf    []T
	bufH   []uint64
	closed bool
	closeH uint64
	recvq  []*sudog[T]
	sendq  []*sudog[T]
}

type sudog[T any] struct {
	g    *G
	val  T
	ok   bool
	hist uint64
	sel  *selectOp
	idx  int
	dead bool
}

func (s *sudog[T]) stale() bool { return s.dead || (s.sel != nil && s.sel.fired) }

// Make creates a channel. site is the source position (plus a name) and is
// used as the object's label.
func Make[T any](site string, n int) *Chan[T] {
	w := W
	if w == nil {
		// a package-level initialiser running at process start: the variable is
		// re-initialised at the start of every execution before anything can use it
		return &Chan[T]{label: site + "(outside any execution)", cap: n}
	}
	if n < 0 {
		panic("makechan: size out of range")
	}
	var elem T
	if sz := uint64(unsafe.Sizeof(elem)); sz > 0 && uint64(n) > (1<<30)/sz {
		// the Go runtime allocates the whole buffer up front: more than 1 GiB here means
		// "fatal error: runtime: out of memory" (or a makechan panic) in the real process
		panic(fmt.Sprintf("makechan: buffer of %d elements (%d bytes): the real runtime allocates it at once and dies with out of memory", n, uint64(n)*sz))
	}
	c := &Chan[T]{w: w, id: w.newKey(), label: site, cap: n}
	w.hashers = append(w.hashers, c)
	return c
}

func (c *Chan[T]) stateHash() uint64 {
	h := c.id
	if c.closed {
		h = mix(h, 0xc105ed)
	}
	for _, b := range c.bufH {
		h = mix(h, b)
	}
	for _, s := range c.recvq {
		if !s.stale() {
			h = mix(h, mix(s.g.Key, 1))
		}
	}
	for _, s := range c.sendq {
		if !s.stale() {
			h = mix(h, mix(s.g.Key, 2))
		}
	}
	return h
}

func (c *Chan[T]) check() {
	if c.w != W {
		panic(fmt.Sprintf("vrt: channel %s used in a different execution than it was created in", c.label))
	}
}

// IDString identifies the channel within one execution.
func (c *Chan[T]) IDString() string {
	if c == nil {
		return "nil"
	}
	return fmt.Sprintf("%x", c.id&0xffffff)
}

// Label returns the creation label.
func (c *Chan[T]) Label() string {
	if c == nil {
		return "nil"
	}
	return c.label
}

// Len is len(c).  It is a visible operation (dtail makes decisions on it).
func (c *Chan[T]) Len(site string) int {
	if c == nil {
		return 0
	}
	var n int
	Visible("len", c.label, site, func() {
		n = len(c.buf)
		if g := Cur(); g != nil {
			g.Hist = mix(g.Hist, mix(uint64(n), c.id))
		}
	})
	return n
}

// Cap is cap(c).
func (c *Chan[T]) Cap() int {
	if c == nil {
		return 0
	}
	return c.cap
}

func (c *Chan[T]) popRecv() *sudog[T] {
	for len(c.recvq) > 0 {
		s := c.recvq[0]
		c.recvq = c.recvq[1:]
		if !s.stale() {
			return s
		}
	}
	return nil
}

func (c *Chan[T]) popSend() *sudog[T] {
	for len(c.sendq) > 0 {
		s := c.sendq[0]
		c.sendq = c.sendq[1:]
		if !s.stale() {
			return s
		}
	}
	return nil
}

func (c *Chan[T]) hasRecvWaiter(except *G) bool {
	for _, s := range c.recvq {
		if !s.stale() && s.g != except {
			return true
		}
	}
	return false
}

func (c *Chan[T]) hasSendWaiter(except *G) bool {
	for _, s := range c.sendq {
		if !s.stale() && s.g != except {
			return true
		}
	}
	return false
}

// wakeSudog completes a parked operation on behalf of its goroutine.
func (w *World) wakeSudog(g *G, sel *selectOp, idx int) {
	if sel != nil {
		sel.fired = true
		sel.chosen = idx
	}
	w.makeReady(g)
}

// ---- send ------------------------------------------------------------------

func (c *Chan[T]) sendReady(g *G) bool {
	if c == nil {
		return false
	}
	return c.closed || c.hasRecvWaiter(g) || len(c.buf) < c.cap
}

// trySend performs a send if possible.  It returns false if it would block.
func (c *Chan[T]) trySend(w *World, g *G, v T) bool {
	if c.closed {
		g.panicVal = "send on closed channel"
		return true
	}
	h := mix(g.Hist, mix(c.id, 1))
	if r := c.popRecv(); r != nil {
		r.val, r.ok = v, true
		r.g.Hist = mix(r.g.Hist, h)
		g.Hist = mix(h, r.hist)
		w.wakeSudog(r.g, r.sel, r.idx)
		return true
	}
	if len(c.buf) < c.cap {
		c.buf = append(c.buf, v)
		c.bufH = append(c.bufH, h)
		g.Hist = h
		return true
	}
	return false
}

type sendOp[T any] struct {
	c    *Chan[T]
	v    T
	site string
}

func (o *sendOp[T]) attempt(w *World, g *G, alt int) bool {
	if o.c == nil {
		g.state = gParked
		return false
	}
	if o.c.trySend(w, g, o.v) {
		return true
	}
	o.c.sendq = append(o.c.sendq, &sudog[T]{g: g, val: o.v, hist: mix(g.Hist, mix(o.c.id, 1))})
	return false
}
func (o *sendOp[T]) readyCases(w *World) []int { return nil }
func (o *sendOp[T]) info() OpInfo {
	return OpInfo{Kind: "send", Obj: o.c.Label(), Site: o.site, ID: o.c.IDString()}
}

// Send is `c <- v`.
func (c *Chan[T]) Send(site string, v T) {
	if c != nil {
		c.check()
	}
	W.yield(&sendOp[T]{c: c, v: v, site: site})
}

// ---- recv ------------------------------------------------------------------

func (c *Chan[T]) recvReady(g *G) bool {
	if c == nil {
		return false
	}
	return c.closed || len(c.buf) > 0 || c.hasSendWaiter(g)
}

func (c *Chan[T]) tryRecv(w *World, g *G) (v T, ok bool, done bool) {
	if len(c.buf) > 0 {
		v = c.buf[0]
		h := c.bufH[0]
		c.buf = c.buf[1:]
		c.bufH = c.bufH[1:]
		g.Hist = mix(mix(g.Hist, mix(c.id, 2)), h)
		if s := c.popSend(); s != nil {
			if s.g.panicVal == nil {
				c.buf = append(c.buf, s.val)
				c.bufH = append(c.bufH, s.hist)
				s.g.Hist = s.hist
			}
			w.wakeSudog(s.g, s.sel, s.idx)
		}
		return v, true, true
	}
	if s := c.popSend(); s != nil { // unbuffered rendez-vous
		v = s.val
		g.Hist = mix(mix(g.Hist, mix(c.id, 2)), s.hist)
		s.g.Hist = mix(s.hist, g.Hist)
		w.wakeSudog(s.g, s.sel, s.idx)
		return v, true, true
	}
	if c.closed {
		g.Hist = mix(mix(g.Hist, mix(c.id, 3)), c.closeH)
		return v, false, true
	}
	return v, false, false
}

type recvOp[T any] struct {
	c    *Chan[T]
	sd   *sudog[T]
	v    T
	ok   bool
	site string
}

func (o *recvOp[T]) attempt(w *World, g *G, alt int) bool {
	if o.c == nil {
		g.state = gParked
		return false
	}
	v, ok, done := o.c.tryRecv(w, g)
	if done {
		o.v, o.ok = v, ok
		return true
	}
	o.sd = &sudog[T]{g: g, hist: mix(g.Hist, mix(o.c.id, 2))}
	o.c.recvq = append(o.c.recvq, o.sd)
	return false
}
func (o *recvOp[T]) readyCases(w *World) []int { return nil }
func (o *recvOp[T]) info() OpInfo {
	return OpInfo{Kind: "recv", Obj: o.c.Label(), Site: o.site, ID: o.c.IDString()}
}

// Recv2 is `v, ok := <-c`.
func (c *Chan[T]) Recv2(site string) (T, bool) {
	if c != nil {
		c.check()
	}
	o := &recvOp[T]{c: c, site: site}
	W.yield(o)
	if o.sd != nil {
		return o.sd.val, o.sd.ok
	}
	return o.v, o.ok
}

// Recv is `<-c`.
func (c *Chan[T]) Recv(site string) T {
	v, _ := c.Recv2(site)
	return v
}

// ---- close -----------------------------------------------------------------

// Close is close(c).
func (c *Chan[T]) Close(site string) {
	if c == nil {
		panic("close of nil channel")
	}
	c.check()
	var pv interface{}
	Visible("close", c.label, site, func() {
		if c.closed {
			pv = "close of closed channel"
			return
		}
		w := W
		g := w.cur
		c.closed = true
		if g != nil {
			g.Hist = mix(g.Hist, mix(c.id, 4))
			c.closeH = g.Hist
		}
		for {
			r := c.popRecv()
			if r == nil {
				break
			}
			var zero T
			r.val, r.ok = zero, false
			r.g.Hist = mix(r.g.Hist, c.closeH)
			w.wakeSudog(r.g, r.sel, r.idx)
		}
		for {
			s := c.popSend()
			if s == nil {
				break
			}
			s.g.panicVal = "send on closed channel"
			w.wakeSudog(s.g, s.sel, s.idx)
		}
	})
	if pv != nil {
		panic(pv)
	}
}

// ---- select ----------------------------------------------------------------

// Case is one communication clause of a select.
type Case interface {
	ready(g *G) bool
	fire(w *World, g *G)
	park(g *G, sel *selectOp, idx int)
	obj() string
	objID() string
	finish()
}

// RecvCase is `case v, ok := <-c`.
type RecvCase[T any] struct {
	c  *Chan[T]
	sd *sudog[T]
	V  T
	OK bool
}

// SendCase is `case c <- v`.
type SendCase[T any] struct {
	c *Chan[T]
	v T
}

// RecvCase builds a receive clause.
func (c *Chan[T]) RecvCase() *RecvCase[T] {
	if c != nil {
		c.check()
	}
	return &RecvCase[T]{c: c}
}

// SendCase builds a send clause.
func (c *Chan[T]) SendCase(v T) *SendCase[T] {
	if c != nil {
		c.check()
	}
	return &SendCase[T]{c: c, v: v}
}

func (r *RecvCase[T]) ready(g *G) bool { return r.c.recvReady(g) }
func (r *RecvCase[T]) fire(w *World, g *G) {
	r.V, r.OK, _ = r.c.tryRecv(w, g)
}
func (r *RecvCase[T]) park(g *G, sel *selectOp, idx int) {
	if r.c == nil {
		return
	}
	r.sd = &sudog[T]{g: g, sel: sel, idx: idx, hist: mix(g.Hist, mix(r.c.id, 2))}
	r.c.recvq = append(r.c.recvq, r.sd)
}
func (r *RecvCase[T]) obj() string   { return r.c.Label() }
func (r *RecvCase[T]) objID() string { return r.c.IDString() }
func (r *RecvCase[T]) finish() {
	if r.sd != nil {
		r.V, r.OK = r.sd.val, r.sd.ok
	}
}

func (s *SendCase[T]) ready(g *G) bool { return s.c.sendReady(g) }
func (s *SendCase[T]) fire(w *World, g *G) {
	s.c.trySend(w, g, s.v)
}
func (s *SendCase[T]) park(g *G, sel *selectOp, idx int) {
	if s.c == nil {
		return
	}
	s.c.sendq = append(s.c.sendq, &sudog[T]{g: g, val: s.v, sel: sel, idx: idx, hist: mix(g.Hist, mix(s.c.id, 1))})
}
func (s *SendCase[T]) obj() string   { return s.c.Label() }
func (s *SendCase[T]) objID() string { return s.c.IDString() }
func (s *SendCase[T]) finish()       {}

type selectOp struct {
	cases      []Case
	hasDefault bool
	chosen     int
	fired      bool
	site       string
	g          *G
}

func (o *selectOp) readyCases(w *World) []int {
	var rc []int
	for i, c := range o.cases {
		if c.ready(o.g) {
			rc = append(rc, i)
		}
	}
	if len(rc) < 2 {
		return nil // zero or one ready case: no choice among cases
	}
	return rc
}

func (o *selectOp) attempt(w *World, g *G, alt int) bool {
	if alt >= 0 {
		o.chosen = alt
		o.fired = true
		o.cases[alt].fire(w, g)
		return true
	}
	for i, c := range o.cases {
		if c.ready(g) {
			o.chosen = i
			o.fired = true
			c.fire(w, g)
			return true
		}
	}
	if o.hasDefault {
		o.chosen = -1
		g.Hist = mix(g.Hist, 0xdef)
		return true
	}
	for i, c := range o.cases {
		c.park(g, o, i)
	}
	return false
}

func (o *selectOp) info() OpInfo {
	s, ids := "", ""
	for i, c := range o.cases {
		if i > 0 {
			s += ","
			ids += ","
		}
		s += c.obj()
		ids += c.objID()
	}
	return OpInfo{Kind: "select", Obj: s, Site: o.site, ID: ids}
}

// Select performs a select statement over the given clauses and returns the
// index of the clause that fired, or -1 for default.
func Select(site string, hasDefault bool, cases ...Case) int {
	o := &selectOp{cases: cases, hasDefault: hasDefault, site: site, chosen: -2}
	if len(cases) == 0 && hasDefault {
		return -1
	}
	o.g = W.cur
	W.yield(o)
	if o.chosen >= 0 {
		o.cases[o.chosen].finish()
	}
	return o.chosen
}
