package vrt

import (
	"errors"
	"time"
)

// Context is the virtual context.Context (Done returns a virtual channel).
type Context interface {
	Deadline() (deadline time.Time, ok bool)
	Done() *Chan[struct{}]
	Err() error
	Value(key interface{}) interface{}
}

// CancelFunc is context.CancelFunc.
type CancelFunc func()

// Canceled and DeadlineExceeded mirror package context.
var (
	Canceled         = errors.New("context canceled")
	DeadlineExceeded = errors.New("context deadline exceeded")
)

type emptyCtx struct{ name string }

func (emptyCtx) Deadline() (time.Time, bool)   { return time.Time{}, false }
func (emptyCtx) Done() *Chan[struct{}]         { return nil }
func (emptyCtx) Err() error                    { return nil }
func (emptyCtx) Value(interface{}) interface{} { return nil }
func (e emptyCtx) String() string              { return e.name }

// Background is context.Background.
func Background() Context { return emptyCtx{"context.Background"} }

// TODO is context.TODO.
func TODO() Context { return emptyCtx{"context.TODO"} }

type cancelCtx struct {
	parent   Context
	done     *Chan[struct{}]
	err      error
	children []*cancelCtx
	deadline time.Time
	hasDl    bool
	tm       *timer
}

func (c *cancelCtx) Deadline() (time.Time, bool) {
	if c.hasDl {
		return c.deadline, true
	}
	return c.parent.Deadline()
}
func (c *cancelCtx) Done() *Chan[struct{}]           { return c.done }
func (c *cancelCtx) Err() error                      { return c.err }
func (c *cancelCtx) Value(k interface{}) interface{} { return c.parent.Value(k) }

func (c *cancelCtx) cancel(w *World, err error, h uint64) {
	if c.err != nil {
		return
	}
	c.err = err
	if c.tm != nil {
		c.tm.dead = true
	}
	c.done.sysClose(w, h)
	for _, ch := range c.children {
		ch.cancel(w, err, h)
	}
	c.children = nil
}

func parentCancelCtx(p Context) *cancelCtx {
	for {
		switch v := p.(type) {
		case *cancelCtx:
			return v
		case *valueCtx:
			p = v.Context
		default:
			return nil
		}
	}
}

func newCancelCtx(parent Context, site string) *cancelCtx {
	if parent == nil {
		panic("cannot create context from nil parent")
	}
	c := &cancelCtx{parent: parent, done: Make[struct{}]("ctx.done@"+site, 0)}
	if pc := parentCancelCtx(parent); pc != nil {
		if pc.err != nil {
			c.err = pc.err
			c.done.closed = true
		} else {
			pc.children = append(pc.children, c)
		}
	} else if parent.Done() != nil {
		// foreign parent: watch it with a goroutine
		Go("ctxwatch@"+site, func() {
			if Select("ctxwatch", false, parent.Done().RecvCase(), c.done.RecvCase()) == 0 {
				c.doCancel(parent.Err())
			}
		})
	}
	return c
}

func (c *cancelCtx) doCancel(err error) {
	if W == nil || W.aborting {
		return
	}
	Visible("cancel", c.done.label, "", func() {
		var h uint64
		if g := Cur(); g != nil {
			g.Hist = mix(g.Hist, mix(c.done.id, 9))
			h = g.Hist
		}
		c.cancel(W, err, h)
	})
}

// WithCancel is context.WithCancel.
func WithCancel(site string, parent Context) (Context, CancelFunc) {
	c := newCancelCtx(parent, site)
	return c, func() { c.doCancel(Canceled) }
}

// WithDeadline is context.WithDeadline.
func WithDeadline(site string, parent Context, d time.Time) (Context, CancelFunc) {
	c := newCancelCtx(parent, site)
	if cur, ok := parent.Deadline(); ok && cur.Before(d) {
		return c, func() { c.doCancel(Canceled) }
	}
	c.deadline, c.hasDl = d, true
	w := W
	dur := d.Sub(w.now)
	if c.err == nil {
		c.tm = w.addTimer(dur, func(w *World) { c.cancel(w, DeadlineExceeded, mix(c.done.id, uint64(w.now.UnixNano()))) })
	}
	return c, func() { c.doCancel(Canceled) }
}

// WithTimeout is context.WithTimeout.
func WithTimeout(site string, parent Context, d time.Duration) (Context, CancelFunc) {
	return WithDeadline(site, parent, Now().Add(d))
}

type valueCtx struct {
	Context
	key, val interface{}
}

func (v *valueCtx) Value(k interface{}) interface{} {
	if k == v.key {
		return v.val
	}
	return v.Context.Value(k)
}

// WithValue is context.WithValue.
func WithValue(parent Context, key, val interface{}) Context {
	return &valueCtx{parent, key, val}
}
