package vrt

import "time"

// sysSend delivers v to c from scheduler context (timer firing), never blocking.
func (c *Chan[T]) sysSend(w *World, v T) {
	h := mix(c.id, uint64(w.now.UnixNano()))
	if r := c.popRecv(); r != nil {
		r.val, r.ok = v, true
		r.g.Hist = mix(r.g.Hist, h)
		w.wakeSudog(r.g, r.sel, r.idx)
		return
	}
	if len(c.buf) < c.cap {
		c.buf = append(c.buf, v)
		c.bufH = append(c.bufH, h)
	}
}

// sysClose closes c from scheduler context or inside another visible op.
func (c *Chan[T]) sysClose(w *World, h uint64) {
	if c.closed {
		return
	}
	c.closed = true
	c.closeH = h
	for {
		r := c.popRecv()
		if r == nil {
			break
		}
		var zero T
		r.val, r.ok = zero, false
		r.g.Hist = mix(r.g.Hist, h)
		w.wakeSudog(r.g, r.sel, r.idx)
	}
}

// Timer is the virtual time.Timer.
type Timer struct {
	C *Chan[time.Time]
	t *timer
	f func()
}

// NewTimer is time.NewTimer.
func NewTimer(site string, d time.Duration) *Timer {
	w := W
	c := Make[time.Time]("timer@"+site, 1)
	tm := &Timer{C: c}
	tm.t = w.addTimer(d, func(w *World) { c.sysSend(w, w.now) })
	return tm
}

// After is time.After.
func After(site string, d time.Duration) *Chan[time.Time] {
	return NewTimer(site, d).C
}

// AfterFunc is time.AfterFunc: f runs in its own managed goroutine.
func AfterFunc(site string, d time.Duration, f func()) *Timer {
	w := W
	tm := &Timer{f: f}
	tm.t = w.addTimer(d, func(w *World) { w.spawn("afterfunc@"+site, f) })
	return tm
}

// Stop is (*time.Timer).Stop.
func (t *Timer) Stop() bool {
	if t.t == nil || t.t.dead {
		return false
	}
	t.t.dead = true
	return true
}

// Reset is (*time.Timer).Reset.
func (t *Timer) Reset(d time.Duration) bool {
	w := W
	active := t.t != nil && !t.t.dead
	if t.t != nil {
		t.t.dead = true
	}
	if t.f != nil {
		f := t.f
		t.t = w.addTimer(d, func(w *World) { w.spawn("afterfunc", f) })
	} else {
		c := t.C
		t.t = w.addTimer(d, func(w *World) { c.sysSend(w, w.now) })
	}
	return active
}

// Ticker is the virtual time.Ticker.
type Ticker struct {
	C    *Chan[time.Time]
	d    time.Duration
	t    *timer
	dead bool
}

// NewTicker is time.NewTicker.
func NewTicker(site string, d time.Duration) *Ticker {
	if d <= 0 {
		panic("non-positive interval for NewTicker")
	}
	tk := &Ticker{C: Make[time.Time]("ticker@"+site, 1), d: d}
	tk.arm()
	return tk
}

func (tk *Ticker) arm() {
	tk.t = W.addTimer(tk.d, func(w *World) {
		if tk.dead {
			return
		}
		tk.C.sysSend(w, w.now)
		tk.arm()
	})
}

// Stop stops the ticker.
func (tk *Ticker) Stop() {
	tk.dead = true
	if tk.t != nil {
		tk.t.dead = true
	}
}

// Reset changes the period.
func (tk *Ticker) Reset(d time.Duration) {
	tk.Stop()
	tk.dead = false
	tk.d = d
	tk.arm()
}
