// Package core holds the plumbing shared by the per-property harnesses
// (controlled and native): sharded workers, violation recording with replay files, known
// findings, evidence files.
package core

import (
	"bufio"
	"crypto/sha1"
	"encoding/base64"
	"encoding/json"
	"fmt"
	"hash/fnv"
	"os"
	"os/exec"
	"path/filepath"
	"regexp"
	"runtime"
	"sort"
	"strconv"
	"strings"
	"sync"
	"time"

	"github.com/mimecast/dtail/verif/explore"
	"github.com/mimecast/dtail/verif/vrt"
)

// VerifDir is /verif (overridable for tests).
var VerifDir = func() string {
	if d := os.Getenv("VERIF_DIR"); d != "" {
		return d
	}
	return "/verif"
}()

// Check describes one property check.
type Check struct {
	ID    string
	Level string // model_checking | exploration | fault_enumeration
	// Rule explains how cases are enumerated and what non-trivial means.
	Rule        string
	Assumptions []string
	// Run does this shard's part of the work.
	Run func(c *Ctx)
	// Replay re-runs one recorded violation and returns its message ("" = passes now).
	Replay func(c *Ctx, rec *ViolationRec) string
	// QuickBudget / ThoroughBudget are internal wall-clock budgets.
	QuickBudget, ThoroughBudget time.Duration
	// Serial checks run in one process.
	Serial bool
	// RaceFilter: for checks running in a -race binary, a reported data race is a
	// violation if one of its frames is in one of these packages (nil = any).
	RaceFilter []string
	// RaceIgnore: races whose report contains all '&&'-separated parts of one entry are not violations (benign races of the pinned
	// tree, listed in DESIGN.md)
	RaceIgnore []string
	// ReportAs is the property id used in VIOLATION lines, replay and evidence
	// files when this check is one part of a property's check (default: ID).
	ReportAs string
	// Scenarios lists the explorer scenarios (for debugging / tracing).
	Scenarios func(tier string) []*explore.Scenario
}

func reportID(ch *Check) string {
	if ch.ReportAs != "" {
		return ch.ReportAs
	}
	return ch.ID
}

// TraceMain prints the trace of one execution of scenario idx with the given choices.
func TraceMain(id, tier string, idx int, choices []int, policy int, demotion bool) int {
	ch := registry[id]
	if ch == nil || ch.Scenarios == nil {
		return 2
	}
	scs := ch.Scenarios(tier)
	if idx >= len(scs) {
		return 2
	}
	sc := scs[idx]
	sc.Policy = vrt.Policy(policy)
	sc.Demotion = demotion
	out, viol, res, div := explore.Replay(sc, choices)
	for _, e := range res.Trace {
		fmt.Printf("%6d g%-3d %-50s %-8s %-60s %-45s %s\n", e.Step, e.G, e.Name, e.Op, e.Obj, e.Site, e.Res)
	}
	fmt.Printf("scenario=%s params=%s\noutcome=%s\nviolation=%s\ndivergence=%s steps=%d points=%d trunc=%s virtual=%v goroutines=%d\n", sc.Name, sc.Params, out, viol, div, res.Steps, res.Points, res.Trunc, res.Now, res.Goroutines)
	return 0
}

var registry = map[string]*Check{}

// Register adds a check.
func Register(c *Check) { registry[c.ID] = c }

// ViolationRec is one violation, sufficient to replay it.
type ViolationRec struct {
	Property string          `json:"property"`
	Sig      string          `json:"signature"`
	Msg      string          `json:"message"`
	Scenario string          `json:"scenario,omitempty"`
	Params   json.RawMessage `json:"params,omitempty"`
	Policy   int             `json:"policy,omitempty"`
	Demotion bool            `json:"demotion,omitempty"`
	Choices  []int           `json:"choices,omitempty"`
	Cost     int             `json:"deviations,omitempty"`
	Input    json.RawMessage `json:"input,omitempty"`
	Trace    []string        `json:"trace,omitempty"`
	Known    bool            `json:"known,omitempty"`
}

// ScenarioStat is the coverage of one explored scenario.
type ScenarioStat struct {
	Name       string `json:"name"`
	Params     string `json:"params,omitempty"`
	Executions int    `json:"executions"`
	Steps      int64  `json:"transitions"`
	States     int    `json:"states"`
	Outcomes   int    `json:"distinct_outcomes"`
	CompletedD int    `json:"completed_deviation_bound"`
	MaxD       int    `json:"requested_deviation_bound"`
	MaxEnabled int    `json:"max_alternatives"`
	MaxPoints  int    `json:"max_choice_points"`
	Truncated  int    `json:"truncated_executions,omitempty"`
	Incomplete bool   `json:"incomplete,omitempty"`
}

// WorkerResult is what one shard reports.
type WorkerResult struct {
	Evaluations int64                  `json:"evaluations"`
	Distinct    map[uint64]struct{}    `json:"-"` // FNV-64 of the keys (memory: millions of long keys per shard)
	DistinctN   int64                  `json:"distinct"`
	States      int64                  `json:"states"`
	Transitions int64                  `json:"transitions"`
	Samples     []interface{}          `json:"samples"`
	Violations  []*ViolationRec        `json:"violations"`
	KnownHits   map[string]int         `json:"known_hits"`
	Incomplete  bool                   `json:"incomplete"`
	Notes       []string               `json:"notes"`
	Scenarios   []*ScenarioStat        `json:"scenarios"`
	Extra       map[string]interface{} `json:"extra"`
	HarnessErr  string                 `json:"harness_error"`
}

// Ctx is the context of one shard.
type Ctx struct {
	Check        *Check
	Tier         string
	Shard        int
	NShards      int
	Deadline     time.Time
	memStop      bool
	expiredCalls int
	Res          *WorkerResult
	Known        map[string]string // signature -> text
	caseIdx      int
	Seed         int64
	sigSeen      map[string]bool
}

// Thorough reports the tier.
func (c *Ctx) Thorough() bool { return c.Tier == "thorough" }

// Expired reports whether the internal budget is used up.
func (c *Ctx) Expired() bool {
	if c.memStop {
		return true
	}
	if time.Now().After(c.Deadline) {
		c.Res.Incomplete = true
		return true
	}
	// the sandbox has no memory limit: a shard whose heap grows beyond 3 GiB stops exploring (reported as incomplete)
	c.expiredCalls++
	if c.expiredCalls%256 == 0 {
		var ms runtime.MemStats
		runtime.ReadMemStats(&ms)
		if ms.HeapAlloc > 3<<30 {
			c.memStop = true
			c.Res.Incomplete = true
			c.Note("shard %d stopped early: heap of %d MiB exceeds the 3 GiB guard", c.Shard, ms.HeapAlloc>>20)
			return true
		}
	}
	return false
}

// Mine is the sharding helper for enumerations: it is called once per case
// (in the same order in every shard) and says whether this shard runs it.
func (c *Ctx) Mine() bool {
	k := c.caseIdx
	c.caseIdx++
	return k%c.NShards == c.Shard
}

// Count accounts for one evaluated case; key identifies distinct non-trivial
// cases ("" = trivial).
func (c *Ctx) Count(key string) {
	c.Res.Evaluations++
	if key != "" {
		if c.Res.Distinct == nil {
			c.Res.Distinct = map[uint64]struct{}{}
		}
		c.Res.Distinct[hashKey(key)] = struct{}{}
	}
}

func hashKey(k string) uint64 {
	h := fnv.New64a()
	h.Write([]byte(k))
	return h.Sum64()
}

// Sample records an example case (a few per shard).
func (c *Ctx) Sample(v interface{}) {
	if len(c.Res.Samples) < 4 {
		c.Res.Samples = append(c.Res.Samples, v)
	}
}

// Note adds a note to the evidence.
func (c *Ctx) Note(f string, a ...interface{}) {
	c.Res.Notes = append(c.Res.Notes, fmt.Sprintf(f, a...))
}

// Violation records a violation found by an enumeration harness.
// It returns true if the violation is a known finding.
func (c *Ctx) Violation(sig, msg string, input interface{}) bool {
	if _, ok := c.Known[sig]; ok {
		c.Res.KnownHits[sig]++
		return true
	}
	if c.sigSeen[sig] || len(c.Res.Violations) >= 8 {
		return false
	}
	c.sigSeen[sig] = true
	b, _ := json.Marshal(input)
	v := &ViolationRec{Property: c.Check.ID, Sig: sig, Msg: msg, Input: b}
	c.Res.Violations = append(c.Res.Violations, v)
	emitViolation(v)
	return false
}

// emitViolation writes the violation to stderr at once, so that the
// coordinator still has it if this worker later hangs and must be killed.
func emitViolation(v *ViolationRec) {
	cp := *v
	cp.Trace = nil
	b, _ := json.Marshal(&cp)
	fmt.Fprintf(os.Stderr, "VIOLJSON %s\n", b)
}

// SigFunc derives the finding signature of a violation message.
type SigFunc func(msg string, v *explore.Violation) string

// Explore explores one scenario up to maxD deviations with this shard's share
// of the level-1 subtrees, recording coverage and violations.
// normMsg removes what legitimately differs between two runs of the same schedule from a failure text:
// addresses and native goroutine numbers in the stack trace of a panic.
var normRe = regexp.MustCompile(`0x[0-9a-f]+|goroutine \d+|\{[^{}]*\}`)

func normMsg(s string) string { return normRe.ReplaceAllString(s, "#") }

func (c *Ctx) Explore(sc *explore.Scenario, maxD int, sig SigFunc) *explore.Stats {
	st := explore.NewStats()
	ex := &explore.Explorer{Sc: sc, Stats: st, Deadline: c.Deadline, ShardIndex: c.Shard, ShardCount: c.NShards}
	unknown := 0
	ex.OnViolation = func(v *explore.Violation) bool {
		s := "violation"
		if sig != nil {
			s = sig(v.Msg, v)
		}
		if _, ok := c.Known[s]; ok {
			c.Res.KnownHits[s]++
			return false
		}
		if c.sigSeen[s] {
			return false
		}
		c.sigSeen[s] = true
		// reproduce 5x before believing it
		for i := 0; i < 5; i++ {
			_, m2, _, div := explore.Replay(sc, v.Choices)
			if div != "" || normMsg(m2) != normMsg(v.Msg) {
				c.Res.HarnessErr = fmt.Sprintf("scenario %s: violation does not reproduce deterministically (run %d: %q vs %q, divergence %q)",
					sc.Name, i, m2, v.Msg, div)
				return true
			}
		}
		_, _, res, _ := explore.Replay(sc, v.Choices)
		var tr []string
		for _, e := range res.Trace {
			tr = append(tr, fmt.Sprintf("%d g%d(%s) %s %s %s %s", e.Step, e.G, e.Name, e.Op, e.Obj, e.Site, e.Res))
		}
		if len(tr) > 400 {
			tr = append(tr[:200], append([]string{"..."}, tr[len(tr)-200:]...)...)
		}
		pb, _ := json.Marshal(sc.Params)
		vr := &ViolationRec{Property: c.Check.ID, Sig: s, Msg: v.Msg, Scenario: sc.Name,
			Params: pb, Policy: v.Policy, Demotion: v.Demotion, Choices: v.Choices, Cost: v.Cost, Trace: tr}
		c.Res.Violations = append(c.Res.Violations, vr)
		emitViolation(vr)
		unknown++
		return true // stop this scenario at the first unknown violation
	}
	var done bool
	if maxD < 0 {
		done = ex.ExploreAll()
	} else {
		done = ex.Explore(maxD)
	}
	if !done && unknown == 0 {
		c.Res.Incomplete = true
	}
	ss := &ScenarioStat{Name: sc.Name, Params: sc.Params, Executions: st.Executions, Steps: st.Steps, States: len(st.States),
		Outcomes: len(st.Outcomes), CompletedD: st.CompletedD, MaxD: maxD, MaxEnabled: st.MaxEnabled, MaxPoints: st.MaxPoints,
		Truncated: st.Truncated, Incomplete: !done}
	if sc.Agg != "" {
		ss.Name, ss.Params = sc.Agg, ""
		merged := false
		for _, o := range c.Res.Scenarios {
			if o.Name == sc.Agg && o.Params == "" {
				o.Executions += ss.Executions
				o.Steps += ss.Steps
				o.States += ss.States
				if ss.Outcomes > o.Outcomes {
					o.Outcomes = ss.Outcomes
				}
				if ss.CompletedD < o.CompletedD {
					o.CompletedD = ss.CompletedD
				}
				if ss.MaxEnabled > o.MaxEnabled {
					o.MaxEnabled = ss.MaxEnabled
				}
				if ss.MaxPoints > o.MaxPoints {
					o.MaxPoints = ss.MaxPoints
				}
				o.Truncated += ss.Truncated
				o.Incomplete = o.Incomplete || ss.Incomplete
				merged = true
			}
		}
		if !merged {
			c.Res.Scenarios = append(c.Res.Scenarios, ss)
		}
	} else {
		c.Res.Scenarios = append(c.Res.Scenarios, ss)
	}
	c.Res.Evaluations += int64(st.Executions)
	c.Res.States += int64(len(st.States))
	c.Res.Transitions += st.Steps
	if c.Res.Distinct == nil {
		c.Res.Distinct = map[uint64]struct{}{}
	}
	for o := range st.Outcomes {
		c.Res.Distinct[hashKey(sc.Name+"|"+sc.Params+"|"+o)] = struct{}{}
	}
	return st
}

// ---------------------------------------------------------------------------
// known findings

// LoadKnown reads KNOWN_FINDINGS.txt: lines
// "finding: property=<id> sig=<signature> <text>".
func LoadKnown(prop string) map[string]string {
	m := map[string]string{}
	f, err := os.Open(filepath.Join(VerifDir, "KNOWN_FINDINGS.txt"))
	if err != nil {
		return m
	}
	defer f.Close()
	sc := bufio.NewScanner(f)
	for sc.Scan() {
		l := strings.TrimSpace(sc.Text())
		if !strings.HasPrefix(l, "finding:") {
			continue
		}
		fs := strings.Fields(l)
		if len(fs) < 3 || fs[1] != "property="+prop || !strings.HasPrefix(fs[2], "sig=") {
			continue
		}
		m[strings.TrimPrefix(fs[2], "sig=")] = strings.Join(fs[3:], " ")
	}
	return m
}

// ---------------------------------------------------------------------------
// worker / coordinator

// WorkerMain runs one shard and prints the result as JSON.
func WorkerMain(id, tier string, shard, n int, deadline time.Time) int {
	ch := registry[id]
	if ch == nil {
		fmt.Fprintf(os.Stderr, "unknown check %s\n", id)
		return 2
	}
	seed, _ := strconv.ParseInt(os.Getenv("VERIF_SEED"), 10, 64)
	c := &Ctx{Check: ch, Tier: tier, Shard: shard, NShards: n, Deadline: deadline, Seed: seed,
		Res: &WorkerResult{KnownHits: map[string]int{}, Extra: map[string]interface{}{}}, Known: LoadKnown(reportID(ch)), sigSeen: map[string]bool{}}
	func() {
		defer func() {
			if r := recover(); r != nil {
				c.Res.HarnessErr = fmt.Sprintf("harness panic: %v", r)
			}
		}()
		ch.Run(c)
	}()
	c.Res.DistinctN = int64(len(c.Res.Distinct))
	out := struct {
		*WorkerResult
		DistinctKeys []string `json:"distinct_keys"`
	}{WorkerResult: c.Res}
	for k := range c.Res.Distinct {
		out.DistinctKeys = append(out.DistinctKeys, fmt.Sprintf("%x", k))
	}
	b, _ := json.Marshal(out)
	os.Stdout.Write(b)
	os.Stdout.Write([]byte("\n"))
	return 0
}

func lastLine(out []byte) []byte {
	lines := strings.Split(strings.TrimSpace(string(out)), "\n")
	return []byte(lines[len(lines)-1])
}

// parseRaces turns the race detector's reports into violations.
func parseRaces(stderr string, filter, ignore []string, prop string) (out []*ViolationRec) {
	seen := map[string]bool{}
	for _, rep := range strings.Split(stderr, "WARNING: DATA RACE")[1:] {
		if i := strings.Index(rep, "=================="); i >= 0 {
			rep = rep[:i]
		}
		relevant := filter == nil
		var funcs []string
		for _, l := range strings.Split(rep, "\n") {
			l = strings.TrimSpace(l)
			if strings.HasPrefix(l, "github.com/mimecast/dtail/internal/") && strings.Contains(l, "(") {
				fn := strings.TrimPrefix(l[:strings.LastIndex(l, "(")], "github.com/mimecast/dtail/")
				if len(funcs) < 2 {
					funcs = append(funcs, fn)
				}
				for _, f := range filter {
					if strings.HasPrefix(fn, f) {
						relevant = true
					}
				}
			}
		}
		for _, ig := range ignore {
			all := true
			for _, part := range strings.Split(ig, "&&") {
				if !strings.Contains(rep, part) {
					all = false
				}
			}
			if all {
				relevant = false
			}
		}
		if !relevant {
			continue
		}
		sig := "data-race:" + strings.Join(funcs, "+")
		if seen[sig] {
			continue
		}
		seen[sig] = true
		if len(rep) > 3000 {
			rep = rep[:3000]
		}
		out = append(out, &ViolationRec{Property: prop, Sig: sig, Msg: "the race detector reports unsynchronised accesses (free-running -race pass):" + rep})
	}
	return
}

var hangGrace = 120 * time.Second

type lockedBuf struct {
	mu sync.Mutex
	b  strings.Builder
}

func (l *lockedBuf) Write(p []byte) (int, error) {
	l.mu.Lock()
	defer l.mu.Unlock()
	return l.b.Write(p)
}
func (l *lockedBuf) String() string {
	l.mu.Lock()
	defer l.mu.Unlock()
	return l.b.String()
}

// Evidence is the evidence file.
type Evidence struct {
	PropertyID  string                 `json:"property_id"`
	Tier        string                 `json:"tier"`
	Seed        int64                  `json:"seed"`
	Level       string                 `json:"level"`
	Coverage    map[string]interface{} `json:"coverage"`
	Assumptions []string               `json:"assumptions"`
	WallS       float64                `json:"wall_s"`
	Violations  int                    `json:"violations"`
}

// CheckMain is the coordinator: runs all shards, merges, writes evidence,
// prints VIOLATION / KNOWN-FINDING lines and returns the exit code.
func CheckMain(id, tier string) int {
	ch := registry[id]
	if ch == nil {
		fmt.Fprintf(os.Stderr, "unknown check %s\n", id)
		return 2
	}
	start := time.Now()
	prop := id
	if ch.ReportAs != "" {
		prop = ch.ReportAs
	}
	budget := ch.QuickBudget
	if tier == "thorough" {
		budget = ch.ThoroughBudget
	}
	if budget == 0 {
		budget = 100 * time.Second
		if tier == "thorough" {
			budget = 12 * time.Minute
		}
	}
	if s := os.Getenv("VERIF_BUDGET_S"); s != "" {
		if v, err := strconv.Atoi(s); err == nil {
			budget = time.Duration(v) * time.Second
		}
	}
	deadline := start.Add(budget)
	n := 16
	if s := os.Getenv("VERIF_SHARDS"); s != "" {
		if v, err := strconv.Atoi(s); err == nil && v > 0 {
			n = v
		}
	}
	if ch.Serial {
		n = 1
	}
	self, _ := os.Executable()
	type wres struct {
		WorkerResult
		DistinctKeys []string `json:"distinct_keys"`
	}
	results := make([]*wres, n)
	errs := make([]string, n)
	var wg sync.WaitGroup
	for i := 0; i < n; i++ {
		wg.Add(1)
		go func(i int) {
			defer wg.Done()
			cmd := exec.Command(self, "worker", id, tier, strconv.Itoa(i), strconv.Itoa(n), strconv.FormatInt(deadline.UnixNano(), 10))
			cmd.Env = append(os.Environ(), "GOMAXPROCS=2", "GORACE=exitcode=0", "GOMEMLIMIT=2GiB")
			var stderr, stdout lockedBuf
			cmd.Stderr = &stderr
			cmd.Stdout = &stdout
			if err := cmd.Start(); err != nil {
				errs[i] = fmt.Sprintf("shard %d: %v", i, err)
				return
			}
			waitCh := make(chan error, 1)
			go func() { waitCh <- cmd.Wait() }()
			var err error
			hung := false
			select {
			case err = <-waitCh:
			case <-time.After(time.Until(deadline) + hangGrace):
				// the worker is stuck in native code (e.g. a blocking open): kill it and keep what it reported
				hung = true
				cmd.Process.Kill()
				err = <-waitCh
			}
			out := []byte(stdout.String())
			if races := parseRaces(stderr.String(), ch.RaceFilter, ch.RaceIgnore, reportID(ch)); len(races) > 0 {
				r := &wres{}
				if e2 := json.Unmarshal(lastLine(out), r); e2 != nil {
					r = &wres{}
				}
				r.Violations = append(r.Violations, races...)
				results[i] = r
				return
			}
			if err != nil {
				// harvest the violations reported before the crash / hang
				var vs []*ViolationRec
				for _, l := range strings.Split(stderr.String(), "\n") {
					if strings.HasPrefix(l, "VIOLJSON ") {
						v := &ViolationRec{}
						if json.Unmarshal([]byte(l[9:]), v) == nil {
							vs = append(vs, v)
						}
					}
				}
				if len(vs) > 0 {
					r := &wres{}
					r.Violations = vs
					r.Incomplete = true
					r.Notes = []string{fmt.Sprintf("shard %d did not finish (hung=%v, %v) after reporting %d violation(s)", i, hung, err, len(vs))}
					results[i] = r
					return
				}
				if hung {
					errs[i] = fmt.Sprintf("shard %d hung past its deadline without reporting a violation: %s", i, tail(stderr.String(), 1500))
				} else {
					errs[i] = fmt.Sprintf("shard %d: %v: %s", i, err, tail(stderr.String(), 2000))
				}
				return
			}
			// the JSON is the last line
			lines := strings.Split(strings.TrimSpace(string(out)), "\n")
			r := &wres{}
			if e := json.Unmarshal([]byte(lines[len(lines)-1]), r); e != nil {
				errs[i] = fmt.Sprintf("shard %d: bad output: %v: %s", i, e, tail(string(out), 500))
				return
			}
			results[i] = r
		}(i)
	}
	wg.Wait()
	for _, e := range errs {
		if e != "" {
			fmt.Fprintln(os.Stderr, "HARNESS ERROR:", e)
			return 2
		}
	}
	// merge
	var evals, states, trans int64
	distinct := map[string]struct{}{}
	var samples []interface{}
	known := map[string]int{}
	var viols []*ViolationRec
	incomplete := false
	var notes []string
	scen := map[string]*ScenarioStat{}
	var scenOrder []string
	extra := map[string]interface{}{}
	for _, r := range results {
		if r == nil {
			continue
		}
		if r.HarnessErr != "" {
			fmt.Fprintln(os.Stderr, "HARNESS ERROR:", r.HarnessErr)
			return 2
		}
		evals += r.Evaluations
		states += r.States
		trans += r.Transitions
		for _, k := range r.DistinctKeys {
			distinct[k] = struct{}{}
		}
		if len(samples) < 6 {
			samples = append(samples, r.Samples...)
		}
		for k, v := range r.KnownHits {
			known[k] += v
		}
		viols = append(viols, r.Violations...)
		incomplete = incomplete || r.Incomplete
		for _, nt := range r.Notes {
			dup := false
			for _, x := range notes {
				if x == nt {
					dup = true
				}
			}
			if !dup {
				notes = append(notes, nt)
			}
		}
		for k, v := range r.Extra {
			if f, ok := v.(float64); ok {
				if o, ok := extra[k].(float64); ok {
					extra[k] = o + f
				} else {
					extra[k] = f
				}
			} else {
				extra[k] = v
			}
		}
		for _, s := range r.Scenarios {
			key := s.Name + "|" + s.Params
			m, ok := scen[key]
			if !ok {
				cp := *s
				scen[key] = &cp
				scenOrder = append(scenOrder, key)
				continue
			}
			m.Executions += s.Executions
			m.Steps += s.Steps
			m.States += s.States
			if s.Outcomes > m.Outcomes {
				m.Outcomes = s.Outcomes
			}
			if s.CompletedD < m.CompletedD {
				m.CompletedD = s.CompletedD
			}
			if s.MaxEnabled > m.MaxEnabled {
				m.MaxEnabled = s.MaxEnabled
			}
			if s.MaxPoints > m.MaxPoints {
				m.MaxPoints = s.MaxPoints
			}
			m.Truncated += s.Truncated
			m.Incomplete = m.Incomplete || s.Incomplete
		}
	}
	// violations: dedupe by signature, write replay files
	sort.SliceStable(viols, func(i, j int) bool { return viols[i].Cost < viols[j].Cost })
	seen := map[string]bool{}
	os.MkdirAll(filepath.Join(VerifDir, "replays"), 0o755)
	exit := 0
	nviol := 0
	for _, v := range viols {
		if seen[v.Sig] {
			continue
		}
		seen[v.Sig] = true
		nviol++
		h := sha1.Sum([]byte(v.Sig + v.Msg))
		path := filepath.Join(VerifDir, "replays", fmt.Sprintf("%s-%x.json", id, h[:5]))
		b, _ := json.MarshalIndent(v, "", " ")
		os.WriteFile(path, b, 0o644)
		v.Property = id
		fmt.Printf("VIOLATION property=%s replay=%s\n", prop, path)
		fmt.Printf("  signature: %s\n  %s\n", v.Sig, firstLines(v.Msg, 12))
		exit = 1
	}
	kf := LoadKnown(prop)
	var ks []string
	for k := range known {
		ks = append(ks, k)
	}
	sort.Strings(ks)
	for _, k := range ks {
		fmt.Printf("KNOWN-FINDING: property=%s %s (%s; hit %d times)\n", prop, kf[k], k, known[k])
	}
	// evidence
	var scl []*ScenarioStat
	for _, k := range scenOrder {
		scl = append(scl, scen[k])
	}
	if len(samples) == 0 {
		samples = append(samples, "no sample recorded")
	}
	cov := map[string]interface{}{
		"evaluations":         evals,
		"distinct_nontrivial": len(distinct),
		"rule":                ch.Rule,
		"samples":             samples,
		"exhaustive":          !incomplete && exit == 0,
		"known_finding_hits":  known,
		"notes":               notes,
		"shards":              n,
		"budget_s":            budget.Seconds(),
	}
	for k, v := range extra {
		cov[k] = v
	}
	if len(scl) > 0 {
		cov["scenarios"] = scl
	}
	if ch.Level == "model_checking" {
		cov["states"] = states
		cov["transitions"] = trans
		cov["traces_validated_against_impl"] = evals
		cov["states_note"] = "distinct happens-before state hashes at choice points, summed over shards and scenarios (a state reached in two shards is counted twice); every execution runs the real rewritten dtail code, so every explored trace is validated against the implementation by construction"
	}
	seed, _ := strconv.ParseInt(os.Getenv("VERIF_SEED"), 10, 64)
	ev := &Evidence{PropertyID: prop, Tier: tier, Seed: seed, Level: ch.Level, Coverage: cov, Assumptions: ch.Assumptions,
		WallS: time.Since(start).Seconds(), Violations: nviol}
	os.MkdirAll(filepath.Join(VerifDir, "evidence"), 0o755)
	b, _ := json.MarshalIndent(ev, "", " ")
	// a part of a property's check writes <part id>.json; bin/check merges the parts
	if err := os.WriteFile(filepath.Join(VerifDir, "evidence", id+".json"), b, 0o644); err != nil {
		fmt.Fprintln(os.Stderr, "HARNESS ERROR: cannot write evidence:", err)
		return 2
	}
	fmt.Printf("%s %s: evaluations=%d distinct=%d states=%d transitions=%d violations=%d known_hits=%d exhaustive=%v wall=%.1fs\n",
		id, tier, evals, len(distinct), states, trans, nviol, len(known), !incomplete && exit == 0, time.Since(start).Seconds())
	for _, s := range scl {
		fmt.Printf("  scenario %-28s %-40s execs=%-7d states=%-7d outcomes=%-3d d=%d/%d%s\n", s.Name, s.Params, s.Executions, s.States, s.Outcomes,
			s.CompletedD, s.MaxD, map[bool]string{true: " (incomplete)", false: ""}[s.Incomplete])
	}
	return exit
}

func tail(s string, n int) string {
	if len(s) > n {
		return s[len(s)-n:]
	}
	return s
}

func firstLines(s string, n int) string {
	l := strings.Split(s, "\n")
	if len(l) > n {
		l = l[:n]
	}
	return strings.Join(l, "\n  ")
}

// ReplayMain replays a violation file.
func ReplayMain(path string) int {
	b, err := os.ReadFile(path)
	if err != nil {
		fmt.Fprintln(os.Stderr, err)
		return 2
	}
	var rec ViolationRec
	if err := json.Unmarshal(b, &rec); err != nil {
		fmt.Fprintln(os.Stderr, err)
		return 2
	}
	ch := registry[rec.Property]
	if ch == nil || ch.Replay == nil {
		fmt.Fprintln(os.Stderr, "no replay for", rec.Property)
		return 2
	}
	c := &Ctx{Check: ch, Tier: "quick", NShards: 1, Deadline: time.Now().Add(time.Hour),
		Res: &WorkerResult{KnownHits: map[string]int{}, Extra: map[string]interface{}{}}, Known: map[string]string{}, sigSeen: map[string]bool{}}
	msg := ch.Replay(c, &rec)
	if msg == "" {
		fmt.Println("replay: no violation (property holds on this schedule/input now)")
		return 0
	}
	fmt.Printf("VIOLATION property=%s replay=%s\n  %s\n", rec.Property, path, firstLines(msg, 30))
	return 1
}

var _ = vrt.Now

// WireCommand frames a command the way the dtail clients do (protocol 4.1).
func WireCommand(cmd string) []byte {
	return []byte("protocol 4.1 base64 " + base64.StdEncoding.EncodeToString([]byte(cmd)) + ";")
}

// ---------------------------------------------------------------------------
// scratch files (created once per process, outside executions)

var scratchDir string

// Scratch returns a per-process scratch directory.
func Scratch() string {
	if scratchDir == "" {
		base := os.Getenv("VERIF_SCRATCH")
		if base == "" {
			base = os.TempDir()
		}
		d, err := os.MkdirTemp(base, "verif-scratch-")
		if err != nil {
			panic(err)
		}
		scratchDir = d
	}
	return scratchDir
}

// CleanupScratch removes the scratch directory.
func CleanupScratch() {
	if scratchDir != "" {
		os.RemoveAll(scratchDir)
		scratchDir = ""
	}
}

// WriteScratch writes a file under the scratch directory.
func WriteScratch(rel, content string) string {
	p := filepath.Join(Scratch(), rel)
	os.MkdirAll(filepath.Dir(p), 0o755)
	if err := os.WriteFile(p, []byte(content), 0o644); err != nil {
		panic(err)
	}
	return p
}
