// Package vos replaces package os in selected rewritten dtail packages.  It
// passes everything through to the real file system but (a) counts open
// descriptors, (b) numbers mutating operations so that a process kill can be
// simulated by freezing the file system at operation k, (c) optionally makes
// reads/writes scheduling points and (d) replaces os.Stdin by a scripted one.
package vos

import (
	"io"
	"io/fs"
	"os"
	"strings"
	"syscall"
	"time"

	"github.com/mimecast/dtail/verif/vrt"
)

type (
	FileInfo  = os.FileInfo
	FileMode  = os.FileMode
	PathError = os.PathError
	Signal    = os.Signal
	DirEntry  = os.DirEntry
)

const (
	O_RDONLY = os.O_RDONLY
	O_WRONLY = os.O_WRONLY
	O_RDWR   = os.O_RDWR
	O_APPEND = os.O_APPEND
	O_CREATE = os.O_CREATE
	O_EXCL   = os.O_EXCL
	O_SYNC   = os.O_SYNC
	O_TRUNC  = os.O_TRUNC

	ModeDir        = os.ModeDir
	ModeAppend     = os.ModeAppend
	ModeSymlink    = os.ModeSymlink
	ModeNamedPipe  = os.ModeNamedPipe
	ModeSocket     = os.ModeSocket
	ModeDevice     = os.ModeDevice
	ModeCharDevice = os.ModeCharDevice
	ModeIrregular  = os.ModeIrregular
	ModeType       = os.ModeType
	ModePerm       = os.ModePerm

	PathSeparator = os.PathSeparator
	DevNull       = os.DevNull
)

var (
	ErrNotExist   = os.ErrNotExist
	ErrExist      = os.ErrExist
	ErrPermission = os.ErrPermission
	ErrClosed     = os.ErrClosed
	ErrInvalid    = os.ErrInvalid
	Interrupt     = os.Interrupt
	Kill          = os.Kill
	Args          = os.Args
	Stdout        = os.Stdout
	Stderr        = os.Stderr
)

// State is the per-execution state of the virtual os layer.
type State struct {
	Open      map[*File]bool
	MaxOpen   map[string]int // by watched prefix
	Watch     []string
	Ops       int // mutating operations so far
	CrashAt   int // freeze before mutating operation number CrashAt (1-based); 0 = never
	Crashed   bool
	OpLog     []string
	StdinData string
	StdinPos  int
	StdinPipe bool
	// StdinHang: a terminal nobody types on - a read beyond the script blocks (in virtual time) instead of
	// reporting end of file
	StdinHang bool
	// FailAt > 0: the FailAt-th mutating operation fails with "no space left on device" (a write after storing half
	// of its data); unlike CrashAt the program keeps running and sees the error
	FailAt  int
	failNow bool
	Visible bool
	Version map[string]uint64
	// ReadDelay makes every read(2) of a file whose name starts with
	// ReadDelayPrefix take that much virtual time (a slow disk / a huge file).
	ReadDelay       time.Duration
	ReadDelayPrefix string
	// SeekEnd records, per file name, the offset returned by the first
	// Seek(0, io.SeekEnd) on it (where a follow began).
	SeekEnd map[string]int64
}

// S is the current state (replaced by Reset).
var S = &State{Open: map[*File]bool{}, MaxOpen: map[string]int{}, Version: map[string]uint64{}, SeekEnd: map[string]int64{}}

// Reset starts a fresh state.
func Reset() *State {
	for f := range S.Open {
		if f.f != nil {
			f.f.Close()
		}
	}
	S = &State{Open: map[*File]bool{}, MaxOpen: map[string]int{}, Version: map[string]uint64{}, SeekEnd: map[string]int64{}}
	return S
}

// CrashSentinel is the panic value used to unwind the writer at a crash point.
type CrashSentinel struct{ Op int }

// mutate is called before every mutating operation. It returns false when the
// file system is frozen (the operation must have no effect).
func mutate(desc string) bool {
	if S.Crashed {
		return false
	}
	S.Ops++
	if S.CrashAt > 0 && S.Ops == S.CrashAt {
		S.Crashed = true
		S.OpLog = append(S.OpLog, "CRASH before "+desc)
		panic(CrashSentinel{S.Ops})
	}
	if S.FailAt > 0 && S.Ops == S.FailAt && strings.HasPrefix(desc, "write ") {
		// an I/O error (disk full, quota, rlimit) at this write: it stores half of its data and fails
		S.failNow = true
		S.OpLog = append(S.OpLog, "ENOSPC at "+desc)
		return true
	}
	S.OpLog = append(S.OpLog, desc)
	return true
}

// failed reports (once) that the operation just admitted by mutate is the one chosen to fail.
func failed() bool {
	if S.failNow {
		S.failNow = false
		return true
	}
	return false
}

var errNoSpace = &os.PathError{Op: "write", Path: "", Err: syscall.ENOSPC}

var errFrozen = &os.PathError{Op: "frozen", Path: "", Err: os.ErrClosed}

// OpenCount returns the number of open files whose name has the prefix.
func OpenCount(prefix string) int {
	n := 0
	for f := range S.Open {
		if strings.HasPrefix(f.name, prefix) {
			n++
		}
	}
	return n
}

func visible(kind, name string) {
	if S.Visible && vrt.W != nil {
		vrt.Visible(kind, name, "", nil)
	}
}

// File wraps *os.File.
type File struct {
	f     *os.File
	name  string
	stdin bool
	pos   int
}

// Stdin is the scripted standard input.
var Stdin = &File{name: "/dev/stdin", stdin: true}

func track(f *os.File, name string) *File {
	vf := &File{f: f, name: name}
	S.Open[vf] = true
	for _, p := range S.Watch {
		if strings.HasPrefix(name, p) {
			if n := OpenCount(p); n > S.MaxOpen[p] {
				S.MaxOpen[p] = n
			}
		}
	}
	return vf
}

func Open(name string) (*File, error) {
	visible("fsopen", name)
	if fi, err := os.Stat(name); err == nil && fi.Mode()&os.ModeNamedPipe != 0 && vrt.W != nil {
		// opening a FIFO without a writer blocks for ever: block virtually, so the
		// scheduler keeps running (and reports the stuck reader) instead of hanging natively
		var never *vrt.Chan[struct{}]
		never.Recv("open-fifo:" + name)
	}
	f, err := os.Open(name)
	if err != nil {
		return nil, err
	}
	return track(f, name), nil
}

func Create(name string) (*File, error) {
	return OpenFile(name, O_RDWR|O_CREATE|O_TRUNC, 0o666)
}

func OpenFile(name string, flag int, perm FileMode) (*File, error) {
	visible("fsopen", name)
	if flag&(O_WRONLY|O_RDWR|O_CREATE|O_TRUNC|O_APPEND) != 0 {
		if !mutate("open " + name + flagStr(flag)) {
			return nil, errFrozen
		}
	}
	f, err := os.OpenFile(name, flag, perm)
	if err != nil {
		return nil, err
	}
	return track(f, name), nil
}

func flagStr(flag int) string {
	s := ""
	if flag&O_CREATE != 0 {
		s += " CREATE"
	}
	if flag&O_TRUNC != 0 {
		s += " TRUNC"
	}
	if flag&O_APPEND != 0 {
		s += " APPEND"
	}
	if flag&O_EXCL != 0 {
		s += " EXCL"
	}
	return s
}

func (f *File) Name() string { return f.name }

func (f *File) Read(p []byte) (int, error) {
	if f.stdin {
		if S.StdinPos >= len(S.StdinData) {
			if S.StdinHang && vrt.W != nil {
				vrt.Sleep("stdin-nobody-types", 1000*time.Hour)
			}
			return 0, io.EOF
		}
		// like a terminal in canonical mode (and like a user typing): one line per read, unless the input is a pipe
		rest := S.StdinData[S.StdinPos:]
		if i := strings.IndexByte(rest, '\n'); i >= 0 && !S.StdinPipe {
			rest = rest[:i+1]
		}
		n := copy(p, rest)
		S.StdinPos += n
		return n, nil
	}
	visible("fsread", f.name)
	if S.ReadDelay > 0 && vrt.W != nil && strings.HasPrefix(f.name, S.ReadDelayPrefix) {
		vrt.Sleep("slow-read", S.ReadDelay)
	}
	return f.f.Read(p)
}

func (f *File) ReadAt(p []byte, off int64) (int, error) { return f.f.ReadAt(p, off) }

func (f *File) Write(p []byte) (int, error) {
	visible("fswrite", f.name)
	if !mutate("write " + f.name + " " + quote(string(p))) {
		return 0, errFrozen
	}
	if failed() {
		n, _ := f.f.Write(p[:len(p)/2])
		return n, errNoSpace
	}
	return f.f.Write(p)
}

func (f *File) WriteString(s string) (int, error) {
	visible("fswrite", f.name)
	if !mutate("write " + f.name + " " + quote(s)) {
		return 0, errFrozen
	}
	if failed() {
		n, _ := f.f.WriteString(s[:len(s)/2])
		return n, errNoSpace
	}
	return f.f.WriteString(s)
}

func quote(s string) string {
	if len(s) > 40 {
		s = s[:40] + "..."
	}
	return strings.ReplaceAll(s, "\n", "\\n")
}

func (f *File) Close() error {
	if f.stdin {
		return nil
	}
	delete(S.Open, f)
	return f.f.Close()
}

func (f *File) Seek(off int64, whence int) (int64, error) {
	if f.stdin {
		return 0, errFrozen
	}
	n, err := f.f.Seek(off, whence)
	if whence == io.SeekEnd && err == nil {
		if _, seen := S.SeekEnd[f.name]; !seen {
			S.SeekEnd[f.name] = n
		}
	}
	return n, err
}

type stdinInfo struct{ pipe bool }

func (stdinInfo) Name() string { return "stdin" }
func (stdinInfo) Size() int64  { return 0 }
func (s stdinInfo) Mode() fs.FileMode {
	if s.pipe {
		return fs.ModeNamedPipe
	}
	return fs.ModeCharDevice | fs.ModeDevice
}
func (stdinInfo) ModTime() time.Time { return time.Time{} }
func (stdinInfo) IsDir() bool        { return false }
func (stdinInfo) Sys() interface{}   { return nil }

func (f *File) Stat() (FileInfo, error) {
	if f.stdin {
		return stdinInfo{S.StdinPipe}, nil
	}
	return f.f.Stat()
}

func (f *File) Sync() error {
	if f.stdin {
		return nil
	}
	return f.f.Sync()
}

func (f *File) Truncate(n int64) error {
	if !mutate("truncate " + f.name) {
		return errFrozen
	}
	return f.f.Truncate(n)
}

func (f *File) Chmod(m FileMode) error { return f.f.Chmod(m) }
func (f *File) Fd() uintptr {
	if f.stdin {
		return 0
	}
	return f.f.Fd()
}

func Stat(name string) (FileInfo, error)  { return os.Stat(name) }
func Lstat(name string) (FileInfo, error) { return os.Lstat(name) }

func Remove(name string) error {
	if !mutate("remove " + name) {
		return errFrozen
	}
	return os.Remove(name)
}

func RemoveAll(name string) error {
	if !mutate("removeall " + name) {
		return errFrozen
	}
	return os.RemoveAll(name)
}

func Rename(a, b string) error {
	if !mutate("rename " + a + " -> " + b) {
		return errFrozen
	}
	return os.Rename(a, b)
}

func ReadFile(name string) ([]byte, error) { return os.ReadFile(name) }

func WriteFile(name string, data []byte, perm FileMode) error {
	if !mutate("writefile " + name) {
		return errFrozen
	}
	return os.WriteFile(name, data, perm)
}

func MkdirAll(p string, perm FileMode) error {
	if !mutate("mkdirall " + p) {
		return errFrozen
	}
	return os.MkdirAll(p, perm)
}

func Mkdir(p string, perm FileMode) error {
	if !mutate("mkdir " + p) {
		return errFrozen
	}
	return os.Mkdir(p, perm)
}

func Chmod(name string, m FileMode) error     { return os.Chmod(name, m) }
func Readlink(name string) (string, error)    { return os.Readlink(name) }
func ReadDir(name string) ([]DirEntry, error) { return os.ReadDir(name) }
func IsNotExist(err error) bool               { return os.IsNotExist(err) }
func IsExist(err error) bool                  { return os.IsExist(err) }
func IsPermission(err error) bool             { return os.IsPermission(err) }
func Getenv(k string) string {
	// a goroutine label "env:<KEY>" overrides the process environment (each
	// in-process server of a harness is its own machine)
	if v := vrt.Label("env:" + k); v != "" {
		return v
	}
	return os.Getenv(k)
}
func LookupEnv(k string) (string, bool)             { return os.LookupEnv(k) }
func Setenv(k, v string) error                      { return os.Setenv(k, v) }
func Hostname() (string, error)                     { return os.Hostname() }
func Getpid() int                                   { return 4242 }
func Getuid() int                                   { return os.Getuid() }
func Getwd() (string, error)                        { return os.Getwd() }
func UserHomeDir() (string, error)                  { return os.UserHomeDir() }
func TempDir() string                               { return os.TempDir() }
func Executable() (string, error)                   { return os.Executable() }
func Exit(code int)                                 { panic(ExitCalled{code}) }
func Symlink(a, b string) error                     { return os.Symlink(a, b) }
func Chdir(d string) error                          { return os.Chdir(d) }
func Environ() []string                             { return os.Environ() }
func Expand(s string, m func(string) string) string { return os.Expand(s, m) }
func ExpandEnv(s string) string                     { return os.ExpandEnv(s) }

// ExitCalled is the panic value of a virtual os.Exit.
type ExitCalled struct{ Code int }

// ---- less common parts of package os (kept so that changed code still builds) ----

var (
	ErrDeadlineExceeded = os.ErrDeadlineExceeded
	ErrNoDeadline       = os.ErrNoDeadline
	ErrProcessDone      = os.ErrProcessDone
)

type (
	LinkError    = os.LinkError
	SyscallError = os.SyscallError
	Process      = os.Process
	ProcAttr     = os.ProcAttr
)

func Truncate(name string, size int64) error {
	if !mutate("truncate " + name) {
		return errFrozen
	}
	return os.Truncate(name, size)
}
func Link(a, b string) error                        { return os.Link(a, b) }
func SameFile(a, b FileInfo) bool                   { return os.SameFile(a, b) }
func Chown(n string, u, g int) error                { return os.Chown(n, u, g) }
func Chtimes(n string, a, m time.Time) error        { return os.Chtimes(n, a, m) }
func Getppid() int                                  { return os.Getppid() }
func Getgid() int                                   { return os.Getgid() }
func Geteuid() int                                  { return os.Geteuid() }
func Unsetenv(k string) error                       { return os.Unsetenv(k) }
func UserCacheDir() (string, error)                 { return os.UserCacheDir() }
func UserConfigDir() (string, error)                { return os.UserConfigDir() }
func MkdirTemp(dir, pattern string) (string, error) { return os.MkdirTemp(dir, pattern) }
func Getpagesize() int                              { return os.Getpagesize() }
func NewSyscallError(s string, err error) error     { return os.NewSyscallError(s, err) }
func IsTimeout(err error) bool                      { return os.IsTimeout(err) }
func DirFS(dir string) fs.FS                        { return os.DirFS(dir) }

func CreateTemp(dir, pattern string) (*File, error) {
	f, err := os.CreateTemp(dir, pattern)
	if err != nil {
		return nil, err
	}
	return track(f, f.Name()), nil
}

func (f *File) WriteAt(p []byte, off int64) (int, error) {
	if !mutate("writeat " + f.name) {
		return 0, errFrozen
	}
	return f.f.WriteAt(p, off)
}
func (f *File) ReadFrom(r io.Reader) (int64, error) {
	b, err := io.ReadAll(r)
	if err != nil {
		return 0, err
	}
	n, err := f.Write(b)
	return int64(n), err
}
func (f *File) Readdir(n int) ([]FileInfo, error)    { return f.f.Readdir(n) }
func (f *File) ReadDir(n int) ([]DirEntry, error)    { return f.f.ReadDir(n) }
func (f *File) Readdirnames(n int) ([]string, error) { return f.f.Readdirnames(n) }
func (f *File) SetDeadline(t time.Time) error        { return f.f.SetDeadline(t) }
func (f *File) SetReadDeadline(t time.Time) error    { return f.f.SetReadDeadline(t) }
func (f *File) SetWriteDeadline(t time.Time) error   { return f.f.SetWriteDeadline(t) }
func (f *File) Chown(u, g int) error                 { return f.f.Chown(u, g) }
