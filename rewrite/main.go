// rewrite turns dtail's concurrency built-ins (chan, select, go, sync, time,
// context, ...) into calls to the vrt controlled runtime.  It reads /repo's
// current working tree, writes transformed copies of the selected packages'
// files to an output directory and emits a `go build -overlay` JSON.
package main

import (
	"bytes"
	"encoding/json"
	"flag"
	"fmt"
	"go/ast"
	"go/format"
	"go/token"
	"go/types"
	"os"
	"path/filepath"
	"sort"
	"strconv"
	"strings"

	"golang.org/x/tools/go/ast/astutil"
	"golang.org/x/tools/go/packages"
)

const vrtPath = "github.com/mimecast/dtail/verif/vrt"
const vrtName = "vrt__"

var shimImports = map[string]string{
	"sync":        "github.com/mimecast/dtail/verif/vsync",
	"sync/atomic": "github.com/mimecast/dtail/verif/vatomic",
	"time":        "github.com/mimecast/dtail/verif/vtime",
	"context":     "github.com/mimecast/dtail/verif/vcontext",
	"math/rand":   "github.com/mimecast/dtail/verif/vrand",
}

const vosPath = "github.com/mimecast/dtail/verif/vos"

func main() {
	repo := flag.String("repo", "/repo", "repository root")
	out := flag.String("out", "", "output directory")
	exclude := flag.String("exclude", "internal/server,internal/io/signal", "comma separated package dirs (relative) NOT rewritten")
	vosPkgs := flag.String("vos", "internal/io/fs,internal/mapr,internal/ssh/client,internal/server/handlers,internal/io/prompt,internal/clients", "package dirs whose os import becomes vos")
	stubs := flag.String("stub", "internal/io/dlog/rotation.go", "files replaced by stubs from -stubdir")
	stubdir := flag.String("stubdir", "", "directory with stub files (flattened names, / -> __)")
	adddir := flag.String("adddir", "", "directory tree of files added to dtail packages (mirrors repo layout)")
	adddir2 := flag.String("adddir2", "", "a second directory tree of added files")
	hooks := flag.String("hooks", "", "comma separated function names (pkgdir.Func or pkgdir.Type.Method) that get a vrt.Hook call as first statement")
	flag.Parse()
	if *out == "" {
		fatal("need -out")
	}
	excl := map[string]bool{}
	for _, e := range strings.Split(*exclude, ",") {
		excl[e] = true
	}
	vosSet := map[string]bool{}
	for _, e := range strings.Split(*vosPkgs, ",") {
		vosSet[e] = true
	}
	hookSet := map[string]bool{}
	for _, e := range strings.Split(*hooks, ",") {
		if e != "" {
			hookSet[e] = true
		}
	}
	stubSet := map[string]bool{}
	for _, e := range strings.Split(*stubs, ",") {
		if e != "" {
			stubSet[e] = true
		}
	}

	cfg := &packages.Config{
		Mode: packages.NeedName | packages.NeedFiles | packages.NeedCompiledGoFiles | packages.NeedSyntax |
			packages.NeedTypes | packages.NeedTypesInfo | packages.NeedImports,
		Dir: *repo,
		Env: append(os.Environ(), "GOFLAGS=-mod=mod", "GOPROXY=off", "GOSUMDB=off", "GOTOOLCHAIN=local"),
	}
	pkgs, err := packages.Load(cfg, "./internal/...")
	if err != nil {
		fatal("load: %v", err)
	}
	overlay := map[string]string{}
	nfiles := 0
	for _, p := range pkgs {
		if len(p.GoFiles) == 0 {
			continue
		}
		rel, _ := filepath.Rel(*repo, filepath.Dir(p.GoFiles[0]))
		if excl[rel] {
			continue
		}
		hard := false
		for _, e := range p.Errors {
			fmt.Fprintf(os.Stderr, "rewrite: type error in %s: %v\n", p.PkgPath, e)
			hard = true
		}
		if hard {
			fatal("package %s does not type-check", p.PkgPath)
		}
		for i, f := range p.Syntax {
			fn := p.CompiledGoFiles[i]
			relf, _ := filepath.Rel(*repo, fn)
			dst := filepath.Join(*out, "src", relf)
			os.MkdirAll(filepath.Dir(dst), 0o755)
			if stubSet[relf] {
				b, err := os.ReadFile(filepath.Join(*stubdir, strings.ReplaceAll(relf, "/", "__")))
				if err != nil {
					fatal("stub for %s: %v", relf, err)
				}
				os.WriteFile(dst, b, 0o644)
				overlay[fn] = dst
				continue
			}
			r := &rewriter{fset: p.Fset, info: p.TypesInfo, file: f, rel: relf, useVos: vosSet[rel], pkgDir: rel, hooks: hookSet}
			src, err := r.run()
			if err != nil {
				fatal("%s: %v", relf, err)
			}
			if err := os.WriteFile(dst, src, 0o644); err != nil {
				fatal("%v", err)
			}
			overlay[fn] = dst
			nfiles++
		}
	}
	// files added to dtail packages
	for _, ad := range []string{*adddir, *adddir2} {
		if ad == "" {
			continue
		}
		ad := ad
		filepath.Walk(ad, func(path string, fi os.FileInfo, err error) error {
			if err != nil || fi.IsDir() || !strings.HasSuffix(path, ".go") {
				return nil
			}
			rel, _ := filepath.Rel(ad, path)
			overlay[filepath.Join(*repo, rel)] = path
			return nil
		})
	}
	b, _ := json.MarshalIndent(map[string]interface{}{"Replace": overlay}, "", " ")
	if err := os.WriteFile(filepath.Join(*out, "overlay.json"), b, 0o644); err != nil {
		fatal("%v", err)
	}
	fmt.Printf("rewrite: %d files rewritten, overlay has %d entries\n", nfiles, len(overlay))
}

func fatal(f string, a ...interface{}) {
	fmt.Fprintf(os.Stderr, "rewrite: "+f+"\n", a...)
	os.Exit(2)
}

type rewriter struct {
	fset   *token.FileSet
	info   *types.Info
	file   *ast.File
	rel    string
	useVos bool
	pkgDir string
	hooks  map[string]bool

	chanLen     map[*ast.CallExpr]string // "Len" / "Cap"
	closeCall   map[*ast.CallExpr]bool
	makeChan    map[*ast.CallExpr]bool
	rangeChan   map[*ast.RangeStmt]bool
	rangeMap    map[*ast.RangeStmt]bool
	noHoist     map[ast.Expr]bool
	commRecv    map[*ast.UnaryExpr]bool
	commSend    map[*ast.SendStmt]bool
	recv2       map[*ast.UnaryExpr]bool
	printCall   map[*ast.CallExpr]string
	ctxArgs     map[*ast.CallExpr][]int
	native      map[ast.Node]bool // channel constructs on native (foreign element) channels: left untouched
	mixedSelect string
	tmp         int
	fmtName     string
}

func (r *rewriter) site(n ast.Node) ast.Expr {
	p := r.fset.Position(n.Pos())
	return &ast.BasicLit{Kind: token.STRING, Value: strconv.Quote(fmt.Sprintf("%s:%d", r.rel, p.Line))}
}

func (r *rewriter) siteNamed(n ast.Node, name string) ast.Expr {
	p := r.fset.Position(n.Pos())
	s := fmt.Sprintf("%s:%d", r.rel, p.Line)
	if name != "" {
		s = name + "@" + s
	}
	return &ast.BasicLit{Kind: token.STRING, Value: strconv.Quote(s)}
}

func isChan(t types.Type) bool {
	if t == nil {
		return false
	}
	_, ok := t.Underlying().(*types.Chan)
	return ok
}

// foreignElem reports whether a channel's element type comes from a package
// that is not rewritten (x/crypto/ssh, os, ...): such channels are created and
// consumed by foreign code and therefore stay native Go channels.
func foreignElem(t types.Type) bool {
	if t == nil {
		return false
	}
	c, ok := t.Underlying().(*types.Chan)
	if !ok {
		return false
	}
	e := c.Elem()
	for {
		if p, ok := e.(*types.Pointer); ok {
			e = p.Elem()
			continue
		}
		break
	}
	n, ok := e.(*types.Named)
	if !ok || n.Obj().Pkg() == nil {
		return false
	}
	path := n.Obj().Pkg().Path()
	if path == "os" && n.Obj().Name() == "Signal" {
		return true // os/signal.Notify needs a native channel
	}
	first := path
	if i := strings.Index(path, "/"); i >= 0 {
		first = path[:i]
	}
	if !strings.Contains(first, ".") {
		return false // standard library element types (bytes.Buffer, time.Time, ...) are dtail's own channels
	}
	return !strings.HasPrefix(path, "github.com/mimecast/dtail")
}

func orderedKey(t types.Type) bool {
	b, ok := t.Underlying().(*types.Basic)
	if !ok {
		return false
	}
	return b.Info()&(types.IsInteger|types.IsFloat|types.IsString) != 0
}

func (r *rewriter) isBuiltin(id *ast.Ident, name string) bool {
	if id.Name != name {
		return false
	}
	_, ok := r.info.Uses[id].(*types.Builtin)
	return ok
}

func (r *rewriter) prepass() {
	r.chanLen = map[*ast.CallExpr]string{}
	r.closeCall = map[*ast.CallExpr]bool{}
	r.makeChan = map[*ast.CallExpr]bool{}
	r.rangeChan = map[*ast.RangeStmt]bool{}
	r.rangeMap = map[*ast.RangeStmt]bool{}
	r.noHoist = map[ast.Expr]bool{}
	r.commRecv = map[*ast.UnaryExpr]bool{}
	r.commSend = map[*ast.SendStmt]bool{}
	r.recv2 = map[*ast.UnaryExpr]bool{}
	r.printCall = map[*ast.CallExpr]string{}
	r.native = map[ast.Node]bool{}
	r.ctxArgs = map[*ast.CallExpr][]int{}
	ast.Inspect(r.file, func(n ast.Node) bool {
		switch v := n.(type) {
		case *ast.ChanType:
			if foreignElem(r.info.TypeOf(v)) {
				r.native[v] = true
			}
		case *ast.UnaryExpr:
			if v.Op == token.ARROW && foreignElem(r.info.TypeOf(v.X)) {
				r.native[v] = true
			}
		case *ast.SendStmt:
			if foreignElem(r.info.TypeOf(v.Chan)) {
				r.native[v] = true
			}
		}
		switch v := n.(type) {
		case *ast.CallExpr:
			// a context.Context handed to code that is NOT rewritten (standard library other than the shimmed packages,
			// third-party modules) must be a real one: the virtual context is bridged (vcontext.Native)
			if fn := calleeFunc(r.info, v); fn != nil && fn.Pkg() != nil && foreignPkg(fn.Pkg().Path()) {
				if sig, ok := fn.Type().(*types.Signature); ok {
					for i, a := range v.Args {
						if i < sig.Params().Len() && isStdContext(sig.Params().At(i).Type()) && isStdContext(r.info.TypeOf(a)) {
							r.ctxArgs[v] = append(r.ctxArgs[v], i)
						}
					}
				}
			}
			if id, ok := v.Fun.(*ast.Ident); ok {
				switch {
				case (r.isBuiltin(id, "len") || r.isBuiltin(id, "cap")) && len(v.Args) == 1:
					if isChan(r.info.TypeOf(v.Args[0])) && !foreignElem(r.info.TypeOf(v.Args[0])) {
						if id.Name == "len" {
							r.chanLen[v] = "Len"
						} else {
							r.chanLen[v] = "Cap"
						}
					}
				case r.isBuiltin(id, "close"):
					if len(v.Args) == 1 && !foreignElem(r.info.TypeOf(v.Args[0])) {
						r.closeCall[v] = true
					}
				case r.isBuiltin(id, "make") && len(v.Args) >= 1:
					if isChan(r.info.TypeOf(v.Args[0])) && !foreignElem(r.info.TypeOf(v.Args[0])) {
						r.makeChan[v] = true
					}
				}
			}
			if sel, ok := v.Fun.(*ast.SelectorExpr); ok {
				if id, ok := sel.X.(*ast.Ident); ok {
					if pn, ok := r.info.Uses[id].(*types.PkgName); ok && pn.Imported().Path() == "fmt" {
						switch sel.Sel.Name {
						case "Print", "Println", "Printf":
							r.printCall[v] = sel.Sel.Name
							r.fmtName = id.Name
						}
					}
				}
			}
		case *ast.RangeStmt:
			t := r.info.TypeOf(v.X)
			if isChan(t) {
				if !foreignElem(t) {
					r.rangeChan[v] = true
				}
			} else if t != nil {
				if m, ok := t.Underlying().(*types.Map); ok && orderedKey(m.Key()) && (v.Tok == token.DEFINE || v.Key == nil) {
					r.rangeMap[v] = true
				} else if ok {
					fmt.Fprintf(os.Stderr, "rewrite: warning: %s: map range with unordered key type left as is\n", r.fset.Position(v.Pos()))
				}
			}
		case *ast.GoStmt:
			for _, a := range v.Call.Args {
				if tv, ok := r.info.Types[a]; ok {
					if b, ok := tv.Type.(*types.Basic); ok && b.Info()&types.IsUntyped != 0 {
						r.noHoist[a] = true
					}
					if tv.IsNil() {
						r.noHoist[a] = true
					}
				}
			}
		case *ast.SelectStmt:
			nat, virt := 0, 0
			for _, c := range v.Body.List {
				cc := c.(*ast.CommClause)
				var ch ast.Expr
				switch s := cc.Comm.(type) {
				case *ast.SendStmt:
					ch = s.Chan
				case *ast.ExprStmt:
					if u, ok := unparen(s.X).(*ast.UnaryExpr); ok {
						ch = u.X
					}
				case *ast.AssignStmt:
					if len(s.Rhs) == 1 {
						if u, ok := unparen(s.Rhs[0]).(*ast.UnaryExpr); ok {
							ch = u.X
						}
					}
				}
				if ch != nil {
					if foreignElem(r.info.TypeOf(ch)) {
						nat++
					} else {
						virt++
					}
				}
			}
			if nat > 0 && virt > 0 {
				r.mixedSelect = fmt.Sprintf("%s: select mixes native (foreign element type) and virtual channels", r.fset.Position(v.Pos()))
			}
			if nat > 0 {
				r.native[v] = true
				return true
			}
			for _, c := range v.Body.List {
				cc := c.(*ast.CommClause)
				switch s := cc.Comm.(type) {
				case *ast.SendStmt:
					r.commSend[s] = true
				case *ast.ExprStmt:
					if u, ok := unparen(s.X).(*ast.UnaryExpr); ok && u.Op == token.ARROW {
						r.commRecv[u] = true
					}
				case *ast.AssignStmt:
					if len(s.Rhs) == 1 {
						if u, ok := unparen(s.Rhs[0]).(*ast.UnaryExpr); ok && u.Op == token.ARROW {
							r.commRecv[u] = true
						}
					}
				}
			}
		case *ast.AssignStmt:
			if len(v.Lhs) == 2 && len(v.Rhs) == 1 {
				if u, ok := unparen(v.Rhs[0]).(*ast.UnaryExpr); ok && u.Op == token.ARROW {
					r.recv2[u] = true
				}
			}
		case *ast.ValueSpec:
			if len(v.Names) == 2 && len(v.Values) == 1 {
				if u, ok := unparen(v.Values[0]).(*ast.UnaryExpr); ok && u.Op == token.ARROW {
					r.recv2[u] = true
				}
			}
		}
		return true
	})
}

// calleeFunc returns the function or method a call statically refers to.
func calleeFunc(info *types.Info, call *ast.CallExpr) *types.Func {
	var id *ast.Ident
	switch f := unparen(call.Fun).(type) {
	case *ast.Ident:
		id = f
	case *ast.SelectorExpr:
		id = f.Sel
	}
	if id == nil {
		return nil
	}
	fn, _ := info.Uses[id].(*types.Func)
	return fn
}

// foreignPkg: a package that is not rewritten and not replaced by a shim.
func foreignPkg(path string) bool {
	if strings.HasPrefix(path, "github.com/mimecast/dtail") {
		return false
	}
	if _, shimmed := shimImports[path]; shimmed || path == "os" || path == "fmt" {
		return false
	}
	return true
}

func isStdContext(t types.Type) bool {
	n, ok := t.(*types.Named)
	return ok && n.Obj().Pkg() != nil && n.Obj().Pkg().Path() == "context" && n.Obj().Name() == "Context"
}

// ctxImportName is the local name under which this file imports "context" (replaced by the shim).
func (r *rewriter) ctxImportName() string {
	for _, imp := range r.file.Imports {
		p, _ := strconv.Unquote(imp.Path.Value)
		if p == "context" || p == shimImports["context"] {
			if imp.Name != nil {
				return imp.Name.Name
			}
			return "context"
		}
	}
	return "context"
}

func unparen(e ast.Expr) ast.Expr {
	for {
		p, ok := e.(*ast.ParenExpr)
		if !ok {
			return e
		}
		e = p.X
	}
}

func vrtSel(name string) ast.Expr {
	return &ast.SelectorExpr{X: ast.NewIdent(vrtName), Sel: ast.NewIdent(name)}
}

func recvExpr(x ast.Expr) ast.Expr {
	switch x.(type) {
	case *ast.Ident, *ast.SelectorExpr, *ast.CallExpr, *ast.IndexExpr, *ast.ParenExpr:
		return x
	}
	return &ast.ParenExpr{X: x}
}

func method(x ast.Expr, name string, args ...ast.Expr) *ast.CallExpr {
	return &ast.CallExpr{Fun: &ast.SelectorExpr{X: recvExpr(x), Sel: ast.NewIdent(name)}, Args: args}
}

func (r *rewriter) newTmp(prefix string) *ast.Ident {
	r.tmp++
	return ast.NewIdent(fmt.Sprintf("vrt_%s%d", prefix, r.tmp))
}

func define(lhs ast.Expr, rhs ast.Expr) ast.Stmt {
	return &ast.AssignStmt{Lhs: []ast.Expr{lhs}, Tok: token.DEFINE, Rhs: []ast.Expr{rhs}}
}

func (r *rewriter) run() ([]byte, error) {
	r.prepass()
	if r.mixedSelect != "" {
		return nil, fmt.Errorf("%s", r.mixedSelect)
	}
	// imports
	for _, imp := range r.file.Imports {
		p, _ := strconv.Unquote(imp.Path.Value)
		np, ok := shimImports[p]
		if p == "os" && r.useVos {
			np, ok = vosPath, true
		}
		if !ok {
			continue
		}
		if imp.Name == nil {
			base := p[strings.LastIndex(p, "/")+1:]
			imp.Name = ast.NewIdent(base)
		}
		imp.Path.Value = strconv.Quote(np)
	}
	for _, d := range r.file.Decls {
		fd, ok := d.(*ast.FuncDecl)
		if !ok || fd.Body == nil {
			continue
		}
		name := r.pkgDir + "." + fd.Name.Name
		var recv ast.Expr = ast.NewIdent("nil")
		if fd.Recv != nil && len(fd.Recv.List) == 1 {
			t := fd.Recv.List[0].Type
			if st, ok := t.(*ast.StarExpr); ok {
				t = st.X
			}
			if id, ok := t.(*ast.Ident); ok {
				name = r.pkgDir + "." + id.Name + "." + fd.Name.Name
			}
			if len(fd.Recv.List[0].Names) == 1 && fd.Recv.List[0].Names[0].Name != "_" {
				if _, isPtr := fd.Recv.List[0].Type.(*ast.StarExpr); isPtr {
					recv = ast.NewIdent(fd.Recv.List[0].Names[0].Name)
				}
			}
		}
		if r.hooks[name+":exit"] {
			call := &ast.DeferStmt{Call: &ast.CallExpr{Fun: vrtSel("Hook"), Args: []ast.Expr{
				&ast.BasicLit{Kind: token.STRING, Value: strconv.Quote(name + ":exit")}, recv}}}
			fd.Body.List = append([]ast.Stmt{call}, fd.Body.List...)
		}
		if r.hooks[name] {
			call := &ast.ExprStmt{X: &ast.CallExpr{Fun: vrtSel("Hook"), Args: []ast.Expr{
				&ast.BasicLit{Kind: token.STRING, Value: strconv.Quote(name)}, recv}}}
			fd.Body.List = append([]ast.Stmt{call}, fd.Body.List...)
		}
	}
	var err error
	res := astutil.Apply(r.file, nil, func(c *astutil.Cursor) bool {
		if err != nil {
			return false
		}
		switch n := c.Node().(type) {
		case *ast.ChanType:
			if r.native[n] {
				break
			}
			c.Replace(&ast.StarExpr{X: &ast.IndexExpr{X: vrtSel("Chan"), Index: n.Value}})
		case *ast.UnaryExpr:
			if n.Op != token.ARROW || r.native[n] {
				break
			}
			switch {
			case r.commRecv[n]:
				c.Replace(method(n.X, "RecvCase"))
			case r.recv2[n]:
				c.Replace(method(n.X, "Recv2", r.site(n)))
			default:
				c.Replace(method(n.X, "Recv", r.site(n)))
			}
		case *ast.SendStmt:
			if r.native[n] {
				break
			}
			if r.commSend[n] {
				c.Replace(&ast.ExprStmt{X: method(n.Chan, "SendCase", n.Value)})
			} else {
				c.Replace(&ast.ExprStmt{X: method(n.Chan, "Send", r.site(n), n.Value)})
			}
		case *ast.CallExpr:
			switch {
			case r.chanLen[n] == "Len":
				c.Replace(method(n.Args[0], "Len", r.site(n)))
			case r.chanLen[n] == "Cap":
				c.Replace(method(n.Args[0], "Cap"))
			case r.closeCall[n]:
				c.Replace(method(n.Args[0], "Close", r.site(n)))
			case r.makeChan[n]:
				// n.Args[0] is already *vrt.Chan[T]; extract T
				st, ok := n.Args[0].(*ast.StarExpr)
				if !ok {
					err = fmt.Errorf("%s: make of named channel type is not supported", r.fset.Position(n.Pos()))
					return false
				}
				elem := st.X.(*ast.IndexExpr).Index
				var size ast.Expr = &ast.BasicLit{Kind: token.INT, Value: "0"}
				if len(n.Args) > 1 {
					size = n.Args[1]
				}
				name := r.assignedName(c)
				c.Replace(&ast.CallExpr{Fun: &ast.IndexExpr{X: vrtSel("Make"), Index: elem},
					Args: []ast.Expr{r.siteNamed(n, name), size}})
			case r.printCall[n] != "":
				c.Replace(&ast.CallExpr{Fun: vrtSel("Stdout" + r.printCall[n]), Args: n.Args, Ellipsis: n.Ellipsis})
			case len(r.ctxArgs[n]) > 0:
				for _, i := range r.ctxArgs[n] {
					n.Args[i] = &ast.CallExpr{Fun: &ast.SelectorExpr{X: ast.NewIdent(r.ctxImportName()), Sel: ast.NewIdent("Native")}, Args: []ast.Expr{n.Args[i]}}
				}
			}
		case *ast.GoStmt:
			c.Replace(r.goStmt(n))
		case *ast.RangeStmt:
			if r.rangeChan[n] {
				c.Replace(r.rangeChanStmt(n))
			} else if r.rangeMap[n] {
				if s := r.rangeMapStmt(n, c); s != nil {
					c.Replace(s)
				}
			}
		case *ast.SelectStmt:
			if r.native[n] {
				break
			}
			var lbl *ast.LabeledStmt
			if l, ok := c.Parent().(*ast.LabeledStmt); ok {
				lbl = l
			}
			blk, e := r.selectStmt(n, lbl)
			if e != nil {
				err = e
				return false
			}
			if lbl != nil {
				// the label moves onto the inner switch; replace the labeled stmt's child
				// with the block and neutralise the outer label by renaming it.
				c.Replace(blk)
			} else {
				c.Replace(blk)
			}
		case *ast.BranchStmt:
			if n.Tok == token.GOTO {
				err = fmt.Errorf("%s: goto is not supported by the rewriter", r.fset.Position(n.Pos()))
				return false
			}
		}
		return true
	})
	if err != nil {
		return nil, err
	}
	f := res.(*ast.File)
	fixLabeledSelects(f)
	r.addGlobalReset(f)
	astutil.AddNamedImport(r.fset, f, vrtName, vrtPath)
	// keep imports used
	f.Decls = append(f.Decls, &ast.GenDecl{Tok: token.VAR, Specs: []ast.Spec{
		&ast.ValueSpec{Names: []*ast.Ident{ast.NewIdent("_")}, Type: vrtSel("OpInfo")}}})
	if r.fmtName != "" {
		f.Decls = append(f.Decls, &ast.GenDecl{Tok: token.VAR, Specs: []ast.Spec{
			&ast.ValueSpec{Names: []*ast.Ident{ast.NewIdent("_")}, Values: []ast.Expr{
				&ast.SelectorExpr{X: ast.NewIdent(r.fmtName), Sel: ast.NewIdent("Sprint")}}}}})
	}
	var buf bytes.Buffer
	buf.WriteString("// Code generated by verif/rewrite from " + r.rel + "; DO NOT EDIT.\n")
	// drop comments: positions no longer match (except build constraints, kept below)
	var cons []string
	for _, cg := range f.Comments {
		for _, cm := range cg.List {
			if strings.HasPrefix(cm.Text, "//go:build") && cm.Pos() < f.Package {
				cons = append(cons, cm.Text)
			}
		}
	}
	for _, cl := range cons {
		buf.WriteString(cl + "\n\n")
	}
	f.Comments = nil
	f.Doc = nil
	if e := format.Node(&buf, token.NewFileSet(), f); e != nil {
		return nil, e
	}
	return buf.Bytes(), nil
}

// addGlobalReset appends an init() that registers a function re-initialising
// every package-level variable of this file; vrt.Run calls these functions at
// the start of every execution, so that state kept in package-level variables
// cannot leak from one execution into the next (which would break replay
// determinism, e.g. when a change hoists a buffer to package scope).
func (r *rewriter) addGlobalReset(f *ast.File) {
	var stmts []ast.Stmt
	for _, d := range f.Decls {
		gd, ok := d.(*ast.GenDecl)
		if !ok || gd.Tok != token.VAR {
			continue
		}
		for _, sp := range gd.Specs {
			vs := sp.(*ast.ValueSpec)
			var lhs []ast.Expr
			allBlank := true
			for _, n := range vs.Names {
				lhs = append(lhs, ast.NewIdent(n.Name))
				if n.Name != "_" {
					allBlank = false
				}
			}
			if allBlank {
				continue
			}
			switch {
			case len(vs.Values) == 0 && vs.Type != nil:
				for _, n := range vs.Names {
					if n.Name == "_" {
						continue
					}
					zero := &ast.CallExpr{Fun: &ast.IndexExpr{X: vrtSel("Zero"), Index: vs.Type}}
					stmts = append(stmts, &ast.AssignStmt{Lhs: []ast.Expr{ast.NewIdent(n.Name)}, Tok: token.ASSIGN, Rhs: []ast.Expr{zero}})
				}
			case len(vs.Values) == len(vs.Names):
				for i, n := range vs.Names {
					if n.Name == "_" {
						continue
					}
					var rhs ast.Expr = vs.Values[i]
					if vs.Type != nil {
						rhs = &ast.CallExpr{Fun: &ast.ParenExpr{X: vs.Type}, Args: []ast.Expr{rhs}}
					}
					stmts = append(stmts, &ast.AssignStmt{Lhs: []ast.Expr{ast.NewIdent(n.Name)}, Tok: token.ASSIGN, Rhs: []ast.Expr{rhs}})
				}
			case len(vs.Values) == 1:
				stmts = append(stmts, &ast.AssignStmt{Lhs: lhs, Tok: token.ASSIGN, Rhs: []ast.Expr{vs.Values[0]}})
			}
		}
	}
	if len(stmts) == 0 {
		return
	}
	reset := &ast.FuncLit{Type: &ast.FuncType{Params: &ast.FieldList{}}, Body: &ast.BlockStmt{List: stmts}}
	call := &ast.ExprStmt{X: &ast.CallExpr{Fun: vrtSel("RegisterReset"), Args: []ast.Expr{
		&ast.BasicLit{Kind: token.STRING, Value: strconv.Quote(r.rel)}, reset}}}
	f.Decls = append(f.Decls, &ast.FuncDecl{Name: ast.NewIdent("init"), Type: &ast.FuncType{Params: &ast.FieldList{}},
		Body: &ast.BlockStmt{List: []ast.Stmt{call}}})
}

// assignedName finds the variable or field a make(chan) is assigned to.
func (r *rewriter) assignedName(c *astutil.Cursor) string {
	switch p := c.Parent().(type) {
	case *ast.AssignStmt:
		if c.Index() >= 0 && c.Index() < len(p.Lhs) {
			return exprName(p.Lhs[c.Index()])
		}
	case *ast.KeyValueExpr:
		return exprName(p.Key)
	case *ast.ValueSpec:
		if c.Index() >= 0 && c.Index() < len(p.Names) {
			return p.Names[c.Index()].Name
		}
	}
	return ""
}

func exprName(e ast.Expr) string {
	switch v := e.(type) {
	case *ast.Ident:
		return v.Name
	case *ast.SelectorExpr:
		return v.Sel.Name
	}
	return ""
}

func (r *rewriter) goStmt(n *ast.GoStmt) ast.Stmt {
	var pre []ast.Stmt
	call := n.Call
	if _, isLit := call.Fun.(*ast.FuncLit); isLit && len(call.Args) == 0 {
		return &ast.ExprStmt{X: &ast.CallExpr{Fun: vrtSel("Go"), Args: []ast.Expr{r.site(n), call.Fun}}}
	}
	fun := call.Fun
	if sel, ok := fun.(*ast.SelectorExpr); ok {
		isPkg := false
		if id, ok := sel.X.(*ast.Ident); ok {
			if _, ok := r.info.Uses[id].(*types.PkgName); ok {
				isPkg = true
			}
		}
		if !isPkg {
			t := r.newTmp("f")
			pre = append(pre, define(t, fun))
			fun = t
		}
	}
	args := make([]ast.Expr, len(call.Args))
	for i, a := range call.Args {
		if _, isLit := a.(*ast.FuncLit); isLit || r.noHoist[a] {
			args[i] = a
			continue
		}
		t := r.newTmp("a")
		pre = append(pre, define(t, a))
		args[i] = t
	}
	inner := &ast.CallExpr{Fun: fun, Args: args, Ellipsis: call.Ellipsis}
	lit := &ast.FuncLit{Type: &ast.FuncType{Params: &ast.FieldList{}}, Body: &ast.BlockStmt{List: []ast.Stmt{&ast.ExprStmt{X: inner}}}}
	goCall := &ast.ExprStmt{X: &ast.CallExpr{Fun: vrtSel("Go"), Args: []ast.Expr{r.site(n), lit}}}
	if len(pre) == 0 {
		return goCall
	}
	return &ast.BlockStmt{List: append(pre, goCall)}
}

func (r *rewriter) rangeChanStmt(n *ast.RangeStmt) ast.Stmt {
	ok := r.newTmp("ok")
	var first ast.Stmt
	call := method(n.X, "Recv2", r.site(n))
	if n.Key == nil {
		first = &ast.AssignStmt{Lhs: []ast.Expr{ast.NewIdent("_"), ok}, Tok: token.DEFINE, Rhs: []ast.Expr{call}}
	} else if n.Tok == token.DEFINE {
		first = &ast.AssignStmt{Lhs: []ast.Expr{n.Key, ok}, Tok: token.DEFINE, Rhs: []ast.Expr{call}}
	} else {
		// assignment form
		decl := &ast.DeclStmt{Decl: &ast.GenDecl{Tok: token.VAR, Specs: []ast.Spec{&ast.ValueSpec{Names: []*ast.Ident{ok}, Type: ast.NewIdent("bool")}}}}
		asg := &ast.AssignStmt{Lhs: []ast.Expr{n.Key, ok}, Tok: token.ASSIGN, Rhs: []ast.Expr{call}}
		brk := &ast.IfStmt{Cond: &ast.UnaryExpr{Op: token.NOT, X: ok}, Body: &ast.BlockStmt{List: []ast.Stmt{&ast.BranchStmt{Tok: token.BREAK}}}}
		body := append([]ast.Stmt{decl, asg, brk}, n.Body.List...)
		return &ast.ForStmt{Body: &ast.BlockStmt{List: body}}
	}
	brk := &ast.IfStmt{Cond: &ast.UnaryExpr{Op: token.NOT, X: ok}, Body: &ast.BlockStmt{List: []ast.Stmt{&ast.BranchStmt{Tok: token.BREAK}}}}
	body := append([]ast.Stmt{first, brk}, n.Body.List...)
	return &ast.ForStmt{Body: &ast.BlockStmt{List: body}}
}

func simpleExpr(e ast.Expr) bool {
	switch v := e.(type) {
	case *ast.Ident:
		return true
	case *ast.SelectorExpr:
		return simpleExpr(v.X)
	case *ast.StarExpr:
		return simpleExpr(v.X)
	case *ast.ParenExpr:
		return simpleExpr(v.X)
	}
	return false
}

func (r *rewriter) rangeMapStmt(n *ast.RangeStmt, c *astutil.Cursor) ast.Stmt {
	var pre []ast.Stmt
	m := n.X
	if !simpleExpr(m) {
		if _, labeled := c.Parent().(*ast.LabeledStmt); labeled {
			fmt.Fprintf(os.Stderr, "rewrite: warning: %s: labeled map range over call left as is\n", r.fset.Position(n.Pos()))
			return nil
		}
		t := r.newTmp("m")
		pre = append(pre, define(t, m))
		m = t
	}
	var key ast.Expr = r.newTmp("k")
	if id, ok := n.Key.(*ast.Ident); ok && id.Name != "_" {
		key = id
	}
	okv := r.newTmp("ok")
	var val ast.Expr = ast.NewIdent("_")
	if n.Value != nil {
		if id, ok := n.Value.(*ast.Ident); !ok || id.Name != "_" {
			val = n.Value
		}
	}
	idx := &ast.IndexExpr{X: m, Index: key}
	get := &ast.AssignStmt{Lhs: []ast.Expr{val, okv}, Tok: token.DEFINE, Rhs: []ast.Expr{idx}}
	cont := &ast.IfStmt{Cond: &ast.UnaryExpr{Op: token.NOT, X: okv}, Body: &ast.BlockStmt{List: []ast.Stmt{&ast.BranchStmt{Tok: token.CONTINUE}}}}
	body := append([]ast.Stmt{get, cont}, n.Body.List...)
	loop := &ast.RangeStmt{Key: ast.NewIdent("_"), Value: key, Tok: token.DEFINE,
		X:    &ast.CallExpr{Fun: vrtSel("SortedKeys"), Args: []ast.Expr{m}},
		Body: &ast.BlockStmt{List: body}}
	if len(pre) == 0 {
		return loop
	}
	return &ast.BlockStmt{List: append(pre, loop)}
}

type labeledSelect struct {
	blk *ast.BlockStmt
}

var pendingLabels = map[*ast.BlockStmt]bool{}

func (r *rewriter) selectStmt(n *ast.SelectStmt, lbl *ast.LabeledStmt) (*ast.BlockStmt, error) {
	var pre []ast.Stmt
	var caseArgs []ast.Expr
	var clauses []ast.Stmt
	hasDefault := false
	idx := 0
	for _, c := range n.Body.List {
		cc := c.(*ast.CommClause)
		if cc.Comm == nil {
			hasDefault = true
			clauses = append(clauses, &ast.CaseClause{List: nil, Body: cc.Body})
			continue
		}
		ck := r.newTmp("c")
		var bind ast.Stmt
		switch s := cc.Comm.(type) {
		case *ast.ExprStmt:
			pre = append(pre, define(ck, s.X))
		case *ast.AssignStmt:
			if len(s.Rhs) != 1 {
				return nil, fmt.Errorf("%s: unexpected select comm", r.fset.Position(s.Pos()))
			}
			pre = append(pre, define(ck, s.Rhs[0]))
			rhs := []ast.Expr{&ast.SelectorExpr{X: ck, Sel: ast.NewIdent("V")}}
			if len(s.Lhs) == 2 {
				rhs = append(rhs, &ast.SelectorExpr{X: ck, Sel: ast.NewIdent("OK")})
			}
			allBlank := true
			for _, l := range s.Lhs {
				if id, ok := l.(*ast.Ident); !ok || id.Name != "_" {
					allBlank = false
				}
			}
			tok := s.Tok
			if allBlank {
				tok = token.ASSIGN
			}
			bind = &ast.AssignStmt{Lhs: s.Lhs, Tok: tok, Rhs: rhs}
		default:
			return nil, fmt.Errorf("%s: unexpected select comm %T", r.fset.Position(cc.Pos()), cc.Comm)
		}
		caseArgs = append(caseArgs, ck)
		body := cc.Body
		if bind != nil {
			body = append([]ast.Stmt{bind}, body...)
			// silence "declared and not used" for := bindings the body ignores (cannot happen
			// in code that compiled before, kept for safety with `_`).
		}
		clauses = append(clauses, &ast.CaseClause{List: []ast.Expr{&ast.BasicLit{Kind: token.INT, Value: strconv.Itoa(idx)}}, Body: body})
		idx++
	}
	hd := "false"
	if hasDefault {
		hd = "true"
	} else {
		clauses = append(clauses, &ast.CaseClause{List: nil, Body: []ast.Stmt{&ast.ExprStmt{X: &ast.CallExpr{
			Fun: ast.NewIdent("panic"), Args: []ast.Expr{&ast.BasicLit{Kind: token.STRING, Value: `"vrt: select returned an impossible index"`}}}}}})
	}
	args := append([]ast.Expr{r.site(n), ast.NewIdent(hd)}, caseArgs...)
	sw := &ast.SwitchStmt{Tag: &ast.CallExpr{Fun: vrtSel("Select"), Args: args}, Body: &ast.BlockStmt{List: clauses}}
	var inner ast.Stmt = sw
	if lbl != nil {
		inner = &ast.LabeledStmt{Label: ast.NewIdent(lbl.Label.Name), Stmt: sw}
	}
	blk := &ast.BlockStmt{List: append(pre, inner)}
	if lbl != nil {
		pendingLabels[blk] = true
	}
	return blk, nil
}

// fixLabeledSelects turns `L: { ...; L: switch ... }` (produced for labeled
// selects) into `{ ...; L: switch ... }`.
func fixLabeledSelects(f *ast.File) {
	astutil.Apply(f, nil, func(c *astutil.Cursor) bool {
		if l, ok := c.Node().(*ast.LabeledStmt); ok {
			if b, ok := l.Stmt.(*ast.BlockStmt); ok && pendingLabels[b] {
				c.Replace(b)
			}
		}
		return true
	})
}

var _ = sort.Strings
